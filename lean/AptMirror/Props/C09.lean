import AptMirror.Model.Index
import AptMirror.Lemmas.Index
import AptMirror.Lemmas.Sources
/-!
# C09 — Packages/Sources parsing and package filters match the Debian index format

> For every well-formed Packages or Sources index (any field order, multi-line fields, optional fields, several blank
> separator lines, missing final newline, …), the set of (path, size) pool files the tool derives equals the set the
> control-file format defines: one per Packages stanza having Package, Filename and a positive Size, and one per file line of
> each Sources stanza placed under its Directory. The include/exclude source-name and binary-name filters select exactly
> the documented subset (a binary package is matched by its Source field, defaulting to its own name), and ignore_errors
> marks exactly the files at or below the listed paths.

Model: `Model/Index.lean` — the two line machines of `_do_parse_index`, literally.  Proved here: the building blocks that make
the machines agree with the stanza semantics, and for Packages indices the whole-index refinement `C09_packages_refines`
(line machine = stanza-level specification, for every stanza sequence, field order, extra fields, multi-line fields, blank
separators and missing final newline) — exact field-name recognition by the `startswith(b"<Name>:")` tests (so fields whose
names are prefixes or extensions of the interesting ones are inert), value extraction from a rendered field line, the effect
of a blank line (flush of exactly the (path, size) of the stanza, then reset), the synthetic final blank line, filter and
ignore_errors semantics.  `C09_sources_refines` is the same refinement for Sources indices: the stanza is an abstract syntax
tree (`Package`, `Directory`, the four checksum sections with their ` hash size name` entries, arbitrary other fields with
continuation lines, including names that extend the interesting ones and any `Checksums-<other>`), the machine's section
flag is shown to be on exactly inside the four sections, and every entry lands under the stanza's Directory.
`C09_splitLines_render` ties the lines to the bytes: reading a text line by line (`readline` until empty) gives back exactly the
lines it was rendered from, with or without a final newline.  Decompression and mmap are library code and are exercised by
the harness (three-way, all compressions, indices above the mmap threshold), not modelled.
-/
namespace AptMirror
namespace Index
open Str

private def noFilterR : Filter := { includeSource := [], excludeSource := [], includeBinary := [], excludeBinary := [] }

/-- **C09 (field names are recognised exactly).** For colon-free names, a line `name: …` passes the test
    `startswith(key + ":")` iff `name = key`: longer (`Package-Type`, `Installed-Size`, `Filename-Extra`) and shorter names
    never match. -/
theorem C09_prefix_exact (key name rest : S) (hk : ':' ∉ key) (hn : ':' ∉ name) :
    startsWith (name ++ ':' :: rest) (key ++ [':']) = true ↔ name = key := by
  unfold startsWith
  constructor
  · intro h
    induction key generalizing name with
    | nil =>
      cases name with
      | nil => rfl
      | cons c cs =>
        simp only [List.nil_append, List.cons_append, List.isPrefixOf, Bool.and_eq_true, beq_iff_eq] at h
        exact absurd (by rw [← h.1]; exact List.mem_cons_self) hn
    | cons k ks ih =>
      cases name with
      | nil =>
        simp only [List.nil_append, List.cons_append, List.isPrefixOf, Bool.and_eq_true, beq_iff_eq] at h
        exact absurd (by rw [h.1]; exact List.mem_cons_self) hk
      | cons c cs =>
        simp only [List.cons_append, List.isPrefixOf, Bool.and_eq_true, beq_iff_eq] at h
        have := ih cs (fun hm => hk (List.mem_cons_of_mem _ hm)) (fun hm => hn (List.mem_cons_of_mem _ hm)) h.2
        rw [h.1, this]
  · rintro rfl
    induction name with
    | nil => simp [List.isPrefixOf]
    | cons c cs ih =>
      simp only [List.cons_append, List.isPrefixOf, beq_self_eq_true, Bool.true_and]
      exact ih (fun hm => hk (List.mem_cons_of_mem _ hm)) (fun hm => hn (List.mem_cons_of_mem _ hm))

/-- continuation lines (leading blank) and blank lines never look like a field of interest -/
theorem C09_continuation_inert (key rest : S) (c : Char) (hk : key.head? ≠ some c) (hne : key ≠ []) :
    startsWith (c :: rest) (key ++ [':']) = false := by
  unfold startsWith
  cases key with
  | nil => exact absurd rfl hne
  | cons k ks =>
    simp only [List.cons_append, List.isPrefixOf, Bool.and_eq_false_iff, beq_eq_false_iff_ne]
    left; intro e; apply hk; simp [e]

/-- **C09 (filters).** `package_allowed` is exactly the documented four-set predicate. -/
theorem C09_filter_spec (f : Filter) (src pkg : S) (hp : pkg ≠ []) :
    f.allowed src (some pkg) = true ↔
      (f.includeSource = [] ∨ src ∈ f.includeSource) ∧ (src ∉ f.excludeSource) ∧
      (f.includeBinary = [] ∨ pkg ∈ f.includeBinary) ∧ (pkg ∉ f.excludeBinary) := by
  unfold Filter.allowed
  have hpe : pkg.isEmpty = false := by cases pkg with | nil => exact absurd rfl hp | cons _ _ => rfl
  by_cases h1 : f.includeSource = []
  · by_cases h2 : src ∈ f.excludeSource
    · have : f.excludeSource ≠ [] := fun e => by rw [e] at h2; cases h2
      simp [h1, h2, this]
    · by_cases h3 : f.includeBinary = []
      · by_cases h4 : pkg ∈ f.excludeBinary
        · have : f.excludeBinary ≠ [] := fun e => by rw [e] at h4; cases h4
          simp [h1, h2, h3, h4, hpe, this]
        · simp [h1, h2, h3, h4, hpe]
      · by_cases h5 : pkg ∈ f.includeBinary
        · by_cases h4 : pkg ∈ f.excludeBinary
          · have : f.excludeBinary ≠ [] := fun e => by rw [e] at h4; cases h4
            simp [h1, h2, h3, h4, h5, hpe, this]
          · simp [h1, h2, h3, h4, h5, hpe]
        · simp [h1, h2, h3, h5, hpe]
  · by_cases h0 : src ∈ f.includeSource
    · by_cases h2 : src ∈ f.excludeSource
      · have : f.excludeSource ≠ [] := fun e => by rw [e] at h2; cases h2
        simp [h1, h0, h2, this]
      · by_cases h3 : f.includeBinary = []
        · by_cases h4 : pkg ∈ f.excludeBinary
          · have : f.excludeBinary ≠ [] := fun e => by rw [e] at h4; cases h4
            simp [h1, h0, h2, h3, h4, hpe, this]
          · simp [h1, h0, h2, h3, h4, hpe]
        · by_cases h5 : pkg ∈ f.includeBinary
          · by_cases h4 : pkg ∈ f.excludeBinary
            · have : f.excludeBinary ≠ [] := fun e => by rw [e] at h4; cases h4
              simp [h1, h0, h2, h3, h4, h5, hpe, this]
            · simp [h1, h0, h2, h3, h4, h5, hpe]
          · simp [h1, h0, h2, h3, h5, hpe]
    · simp [h1, h0]

/-- **C09 (ignore_errors is exact).** A file is marked iff one of the listed paths is a component-wise prefix of its path
    (the path itself or a directory above it) — `pool/mai` does not mark `pool/main/...`. -/
theorem C09_ignore_exact (ignored : List Path) (p : Path) :
    shouldIgnore ignored p = true ↔ ∃ i ∈ ignored, ∃ rest, p = i ++ rest := by
  unfold shouldIgnore
  simp only [List.any_eq_true]
  constructor
  · rintro ⟨i, hi, hpre⟩
    refine ⟨i, hi, ?_⟩
    have : ∀ (a b : Path), isPrefix a b = true → ∃ r, b = a ++ r := by
      intro a
      induction a with
      | nil => intro b _; exact ⟨b, rfl⟩
      | cons x xs ih =>
        intro b hb
        cases b with
        | nil => simp [isPrefix] at hb
        | cons y ys =>
          simp only [isPrefix, Bool.and_eq_true, beq_iff_eq] at hb
          obtain ⟨r, hr⟩ := ih ys hb.2
          exact ⟨r, by rw [hb.1, hr]; rfl⟩
    exact this i p hpre
  · rintro ⟨i, hi, rest, rfl⟩
    refine ⟨i, hi, ?_⟩
    have : ∀ (a r : Path), isPrefix a (a ++ r) = true := by
      intro a r; induction a with
      | nil => rfl
      | cons x xs ih => simp [isPrefix, ih]
    exact this i rest

/-- **C09 (a blank line flushes exactly the stanza's file and resets).** With Package, an accepted Filename and a
    non-zero Size collected, and the filters allowing the package (matched by Source, defaulting to its own name), a blank
    line adds exactly `(Filename, Size)` to the pool and clears the per-stanza state. -/
theorem C09_blank_flushes (flt : Filter) (ign : List Path) (s : PState) (pool : List PoolFile) (pkg : S) (fp : Path)
    (h1 : s.package = some pkg) (h2 : s.filePath = some fp) (hp : pkg ≠ []) (hs : s.size ≠ 0)
    (hf : flt.allowed (s.srcName pkg) (some pkg) = true) :
    packagesLine flt ign (s, pool) ['\n'] =
      .ok ({}, putPool pool { path := fp, size := s.size, ignoreErrors := shouldIgnore ign fp }) := by
  have hpe : pkg.isEmpty = false := by cases pkg with | nil => exact absurd rfl hp | cons _ _ => rfl
  simp [packagesLine, h1, h2, hpe, hs, hf, pure, Except.pure]

/-- a stanza lacking Package, Filename or a non-zero Size yields nothing -/
theorem C09_blank_skips (flt : Filter) (ign : List Path) (s : PState) (pool : List PoolFile)
    (h : s.package = none ∨ s.filePath = none ∨ s.size = 0) :
    packagesLine flt ign (s, pool) ['\n'] = .ok ({}, pool) := by
  rcases h with h | h | h
  · simp [packagesLine, h, pure, Except.pure]
  · cases hp : s.package <;> simp [packagesLine, h, hp, pure, Except.pure]
  · cases hp : s.package with
    | none => simp [packagesLine, hp, pure, Except.pure]
    | some pkg => cases hf : s.filePath <;> simp [packagesLine, hp, hf, h, pure, Except.pure]

/-- **C09 (missing final newline / no trailing blank line).** The machine always appends one synthetic blank line, so the
    last stanza is flushed whether or not the file ends with a blank line. -/
theorem C09_final_flush (flt : Filter) (ign : List Path) (lines : List S) (pool : List PoolFile) :
    packagesMachine flt ign lines pool = (do
      let r ← lines.foldlM (packagesLine flt ign) ({}, pool)
      let r' ← packagesLine flt ign r ['\n']
      pure r'.2) := by
  unfold packagesMachine
  rw [List.foldlM_append]
  simp [List.foldlM]

theorem specIndex_blanks (flt : Filter) (ign : List Path) (sts : List Stanza) (last : Stanza) (k : Nat) (pool : List PoolFile) :
    specIndex flt ign (sts ++ [{ last with blanks := k }]) pool = specIndex flt ign (sts ++ [last]) pool := by
  simp [specIndex, List.foldlM_append]

/-- **C09 (Packages: the line machine computes the stanza-level meaning of the index).** For every sequence of stanzas of
    well-formed fields — any field order, any fields besides the four that are read (including names that are prefixes or
    extensions of them), multi-line fields, one or more blank lines between stanzas, any number (also none) after the last
    one, and a last line with or without its newline — `PackagesParser._do_parse_index` derives exactly what reading each
    stanza on its own yields: at most one `(Filename, Size)` per stanza, under the filter and ignore rules (`flush`).
    A `Size` that is no integer is the same error on both sides. -/
theorem C09_packages_refines (flt : Filter) (ign : List Path) (sts : List Stanza) (last : Stanza)
    (hb : ∀ st ∈ sts, 1 ≤ st.blanks) (hok : ∀ st ∈ sts ++ [last], ∀ f ∈ st.fields, f.OK) (pool : List PoolFile) :
    packagesMachine flt ign ((sts ++ [last]).flatMap Stanza.lines) pool = specIndex flt ign (sts ++ [last]) pool := by
  have hlines : (sts ++ [last]).flatMap Stanza.lines ++ [['\n']] =
      (sts ++ [{ last with blanks := last.blanks + 1 }]).flatMap Stanza.lines := by
    simp only [List.flatMap_append, List.flatMap_cons, List.flatMap_nil, List.append_nil, Stanza.lines, List.append_assoc]
    congr 2
    rw [List.replicate_succ']
  unfold packagesMachine
  rw [hlines, packages_stanzas flt ign _ ?_ ?_ pool, specIndex_blanks]
  · cases specIndex flt ign (sts ++ [last]) pool <;> rfl
  · intro st hst
    rcases List.mem_append.mp hst with h | h
    · exact hb st h
    · simp only [List.mem_singleton] at h; subst h; simp
  · intro st hst f hf
    rcases List.mem_append.mp hst with h | h
    · exact hok st (List.mem_append_left _ h) f hf
    · simp only [List.mem_singleton] at h; subst h
      exact hok last (by simp) f hf

/-- **C09 (the stanza's package name is its `Package` field).** Whatever else the stanza contains and in whatever order, the
    name the filters are applied to and the stanza is kept under is the value of its `Package` field. -/
theorem C09_package_is_field (fs : List Field) (s' : PState) (h : specFields {} fs = .ok s') :
    s'.package = (lastField kPackage fs).map (fun f => f.rest.drop 1) := by
  have := specFields_package fs {} s' h
  rw [this]
  cases lastField kPackage fs <;> rfl

/-- an empty index derives nothing -/
theorem C09_packages_empty (flt : Filter) (ign : List Path) (pool : List PoolFile) :
    packagesMachine flt ign [] pool = .ok pool := by
  simp [packagesMachine, List.foldlM, packagesLine_blank, flush_empty, bind, Except.bind, pure, Except.pure]


/-! ## Sources -/

theorem specSources_blanks (flt : Filter) (ign : List Path) (sts : List SrcStanza) (last : SrcStanza) (k : Nat) (pool : List PoolFile) :
    specSources flt ign (sts ++ [{ last with blanks := k }]) pool = specSources flt ign (sts ++ [last]) pool := by
  simp [specSources, List.foldlM_append]

/-- **C09 (Sources: the line machine computes the stanza-level meaning of the index).** For every sequence of Sources stanzas —
    `Package`, `Directory`, any of the sections `Files` / `Checksums-Sha1|Sha256|Sha512` with their file entries, and any other
    fields (multi-line, names that are prefixes or extensions of the interesting ones, `Checksums-<anything else>`) in any
    order and any number, one or more blank lines between stanzas, any number after the last, last line with or without its
    newline — `SourcesParser._do_parse_index` derives exactly: for each stanza that has a Package the source-name filters
    allow and a (safe) Directory, one pool file per distinct (safe) file name of its sections, placed under the Directory, with
    the size of its first entry.  A size that is no integer is the same error on both sides. -/
theorem C09_sources_refines (flt : Filter) (ign : List Path) (sts : List SrcStanza) (last : SrcStanza)
    (hb : ∀ st ∈ sts, 1 ≤ st.blanks) (hok : ∀ st ∈ sts ++ [last], ∀ f ∈ st.fields, f.OK) (pool : List PoolFile) :
    sourcesMachine flt ign ((sts ++ [last]).flatMap SrcStanza.lines) pool = specSources flt ign (sts ++ [last]) pool := by
  have hlines : (sts ++ [last]).flatMap SrcStanza.lines ++ [['\n']] =
      (sts ++ [{ last with blanks := last.blanks + 1 }]).flatMap SrcStanza.lines := by
    simp only [List.flatMap_append, List.flatMap_cons, List.flatMap_nil, List.append_nil, SrcStanza.lines, List.append_assoc]
    congr 2
    rw [List.replicate_succ']
  unfold sourcesMachine
  rw [hlines, sources_stanzas flt ign _ ?_ ?_ pool, specSources_blanks]
  · cases specSources flt ign (sts ++ [last]) pool <;> rfl
  · intro st hst
    rcases List.mem_append.mp hst with h | h
    · exact hb st h
    · simp only [List.mem_singleton] at h; subst h; simp
  · intro st hst f hf
    rcases List.mem_append.mp hst with h | h
    · exact hok st (List.mem_append_left _ h) f hf
    · simp only [List.mem_singleton] at h; subst h
      exact hok last (by simp) f hf

/-- **C09 (a Sources stanza places each file under its Directory).** What the end of a stanza adds is, for every collected
    file `(name, size)`, the pool file `Directory/name` with that size and the ignore mark of that full path — and nothing when
    the stanza lacks a Package or a Directory or the source-name filter rejects it. -/
theorem C09_sources_flush (flt : Filter) (ign : List Path) (a : SrcAcc) (pool : List PoolFile) :
    srcFlush flt ign a pool =
      match a.package, a.directory with
      | some pkg, some dir =>
        if pkg ≠ [] ∧ flt.allowed pkg none = true then
          a.files.foldl (fun pl f =>
            let full := if isAbsPath f.1 then f.1 else dir ++ f.1
            putPool pl { path := full, size := f.2, ignoreErrors := shouldIgnore ign full }) pool
        else pool
      | _, _ => pool := by
  unfold srcFlush
  cases a.package with
  | none => rfl
  | some pkg =>
    cases a.directory with
    | none => rfl
    | some dir =>
      cases pkg with
      | nil => simp
      | cons c cs => cases h : flt.allowed (c :: cs) none <;> simp [h]

/-- a line as `readline` returns it: a newline-free body and its newline -/
def IsLine (l : S) : Prop := ∃ b, l = b ++ ['\n'] ∧ '\n' ∉ b

theorem splitLines_go_body (b r cur : S) (acc : List S) (hb : '\n' ∉ b) :
    splitLines.go cur acc (b ++ r) = splitLines.go (b.reverse ++ cur) acc r := by
  induction b generalizing cur with
  | nil => rfl
  | cons c cs ih =>
    have hc : c ≠ '\n' := fun e => hb (by rw [e]; exact List.mem_cons_self)
    simp only [List.cons_append, splitLines.go, hc, if_false]
    rw [ih (c :: cur) (fun hm => hb (List.mem_cons_of_mem _ hm))]
    simp

theorem splitLines_go_lines (ls : List S) (last : S) (acc : List S) (h : ∀ l ∈ ls, IsLine l) (hl : '\n' ∉ last) :
    splitLines.go [] acc (ls.flatten ++ last) = acc.reverse ++ ls ++ (if last = [] then [] else [last]) := by
  induction ls generalizing acc with
  | nil =>
    have := splitLines_go_body last [] [] acc hl
    simp only [List.append_nil] at this
    simp only [List.flatten_nil, List.nil_append, List.append_nil, this, splitLines.go]
    cases last with
    | nil => simp
    | cons c cs => simp
  | cons l ls ih =>
    obtain ⟨b, rfl, hb⟩ := h l List.mem_cons_self
    have e : ((b ++ ['\n']) :: ls).flatten ++ last = b ++ ('\n' :: (ls.flatten ++ last)) := by simp
    rw [e, splitLines_go_body b _ [] acc hb]
    simp only [List.append_nil, splitLines.go, if_true]
    rw [ih _ (fun x hx => h x (List.mem_cons_of_mem _ hx))]
    simp

/-- **C09 (lines ↔ bytes).** Reading the concatenation of lines with `readline` until it returns nothing gives back
    exactly those lines; a last line without its newline is returned as it is, and no empty line is invented at the end. -/
theorem C09_splitLines_render (ls : List S) (last : S) (h : ∀ l ∈ ls, IsLine l) (hl : '\n' ∉ last) :
    splitLines (ls.flatten ++ last) = ls ++ (if last = [] then [] else [last]) := by
  have := splitLines_go_lines ls last [] h hl
  simp only [List.reverse_nil, List.nil_append] at this
  unfold splitLines
  split
  · rename_i heq
    rw [heq] at this
    simpa [splitLines.go] using this.symm
  · exact this

/-! ### non-vacuity of the Sources refinement -/
private def sPkg : SrcField := .package "hello".toList ['\n']
private def sDir : SrcField := .directory "pool/main/h/hello".toList ['\n']
private def sFiles : SrcField := .sect .files [⟨"aa".toList, "10".toList, "hello_1.dsc".toList, ['\n']⟩, ⟨"bb".toList, "20".toList, "hello_1.tar.gz".toList, ['\n']⟩]
private def sSha : SrcField := .sect .sha256 [⟨"cc".toList, "10".toList, "hello_1.dsc".toList, ['\n']⟩, ⟨"dd".toList, "7".toList, "../x".toList, []⟩]
private def sOther : SrcField := .other { name := "Checksums-Md5x".toList, rest := [], cont := [("aa 1 qqq".toList, ['\n'])] }
example : sPkg.OK := ⟨⟨by decide, by decide⟩, Or.inl rfl⟩
example : sOther.OK := ⟨⟨by decide, 'C', "hecksums-Md5x".toList, by decide, by decide⟩, by decide, by decide, by decide, by decide⟩
example : ((⟨[sOther, sFiles, sPkg, sDir, sSha], 0⟩ : SrcStanza).lines).flatten =
    ("Checksums-Md5x:\n aa 1 qqq\nFiles:\n aa 10 hello_1.dsc\n bb 20 hello_1.tar.gz\nPackage: hello\nDirectory: pool/main/h/hello\n" ++
     "Checksums-Sha256:\n cc 10 hello_1.dsc\n dd 7 ../x").toList := by decide +kernel
example : (specSources noFilterR [] [⟨[sOther, sFiles, sPkg, sDir, sSha], 0⟩] []).toOption =
    some [{ path := ["pool", "main", "h", "hello", "hello_1.dsc"], size := 10, ignoreErrors := false },
          { path := ["pool", "main", "h", "hello", "hello_1.tar.gz"], size := 20, ignoreErrors := false }] := by decide +kernel
example : splitLines "a\n\nb".toList = ["a\n".toList, "\n".toList, "b".toList] := by decide

/-- **C09 (several indices read by one parser).** `PackagesParser` keeps its per-stanza state in the parser object and does not
    reset it when it opens the next index file; because every file ends with the synthetic blank line, nothing of one index
    reaches the next: reading the files one after the other derives exactly what the stanzas of all files mean, each on its own. -/
theorem C09_packages_several_indices (flt : Filter) (ign : List Path) (files : List (List Stanza × Stanza))
    (hb : ∀ f ∈ files, ∀ st ∈ f.1, 1 ≤ st.blanks) (hok : ∀ f ∈ files, ∀ st ∈ f.1 ++ [f.2], ∀ fld ∈ st.fields, fld.OK)
    (pool : List PoolFile) :
    files.foldlM (fun pl f => packagesMachine flt ign ((f.1 ++ [f.2]).flatMap Stanza.lines) pl) pool =
      specIndex flt ign (files.flatMap (fun f => f.1 ++ [f.2])) pool := by
  induction files generalizing pool with
  | nil => rfl
  | cons f fs ih =>
    simp only [List.foldlM_cons, List.flatMap_cons]
    rw [C09_packages_refines flt ign f.1 f.2 (hb f List.mem_cons_self) (hok f List.mem_cons_self) pool]
    have happ : specIndex flt ign ((f.1 ++ [f.2]) ++ fs.flatMap (fun f => f.1 ++ [f.2])) pool =
        (specIndex flt ign (f.1 ++ [f.2]) pool) >>= (fun p => specIndex flt ign (fs.flatMap (fun f => f.1 ++ [f.2])) p) := by
      simp only [specIndex, List.foldlM_append]
    rw [happ]
    cases specIndex flt ign (f.1 ++ [f.2]) pool with
    | error e => rfl
    | ok p =>
      simp only [bind, Except.bind]
      exact ih (fun g hg => hb g (List.mem_cons_of_mem _ hg)) (fun g hg => hok g (List.mem_cons_of_mem _ hg)) p

/-! ### non-vacuity of the refinement: the fields of the example below are well-formed and render to its lines -/
private def fPkg : Field := { name := kPackage, rest := " a".toList }
private def fDecoy : Field := { name := "Package-Type".toList, rest := " udeb".toList }
private def fFile : Field := { name := kFilename, rest := " pool/a_1.deb".toList }
private def fDesc : Field := { name := "Description".toList, rest := " x".toList, cont := [("more".toList, ['\n']), (".".toList, ['\n'])] }
private def fSize : Field := { name := kSize, rest := " 42".toList, eol := [] }
example : fPkg.OK :=
  ⟨⟨by decide, 'P', "ackage".toList, by decide, by decide⟩, Or.inl rfl,
   fun _ => ⟨"a".toList, rfl, ⟨'a', [], rfl, by decide⟩, ⟨[], 'a', rfl, by decide⟩⟩⟩
example : fSize.OK :=
  ⟨⟨by decide, 'S', "ize".toList, by decide, by decide⟩, Or.inr rfl,
   fun _ => ⟨"42".toList, rfl, ⟨'4', ['2'], rfl, by decide⟩, ⟨['4'], '2', rfl, by decide⟩⟩⟩
example : ((⟨[fPkg, fDecoy, fFile, fDesc, fSize], 0⟩ : Stanza).lines) =
    splitLines "Package: a\nPackage-Type: udeb\nFilename: pool/a_1.deb\nDescription: x\n more\n .\nSize: 42".toList := by decide
example : (specIndex noFilterR [] [⟨[fPkg, fDecoy, fFile, fDesc, fSize], 0⟩] []).toOption =
    some [{ path := ["pool", "a_1.deb"], size := 42, ignoreErrors := false }] := by decide +kernel

/-! ### non-vacuity: a concrete index with a decoy field, a multi-line field, two separators and no final newline -/
private def exText : S :=
  ("Package: a\nPackage-Type: udeb\nInstalled-Size: 9\nFilename: pool/a_1.deb\nDescription: x\n more\n .\nSize: 42\nSHA256: ab\n\n\n" ++
   "Size: 7\nPackage: b\nSource: s (1.0)\nFilename: pool/b_1.deb").toList
private def noFilter : Filter := { includeSource := [], excludeSource := [], includeBinary := [], excludeBinary := [] }
example : (packagesMachine noFilter [["pool", "b_1.deb"]] (splitLines exText) []).toOption =
    some [{ path := ["pool", "a_1.deb"], size := 42, ignoreErrors := false }, { path := ["pool", "b_1.deb"], size := 7, ignoreErrors := true }] := by decide +kernel
example : (packagesMachine { noFilter with excludeSource := ["s".toList] } [] (splitLines exText) []).toOption =
    some [{ path := ["pool", "a_1.deb"], size := 42, ignoreErrors := false }] := by decide +kernel

end Index
end AptMirror
