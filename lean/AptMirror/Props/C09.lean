import AptMirror.Model.Index
import AptMirror.Lemmas.Index
/-!
# C09 — Packages/Sources parsing and package filters match the Debian index format

> For every well-formed Packages or Sources index (any field order, multi-line fields, optional fields, several blank
> separator lines, missing final newline, …), the set of (path, size) pool files the tool derives equals the set the
> control-file format defines: one per Packages stanza having Package, Filename and a positive Size, and one per file line of
> each Sources stanza placed under its Directory. The include/exclude source-name and binary-name filters select exactly
> the documented subset (a binary package is matched by its Source field, defaulting to its own name), and ignore_errors
> marks exactly the files at or below the listed paths.

Model: `Model/Index.lean` — the two line machines of `_do_parse_index`, literally.  Proved here: the building blocks that make
the machines agree with the stanza semantics, and for Packages indices the whole-index refinement `C09_packages_refines`
(line machine = stanza-level specification, for every stanza sequence, field order, extra fields, multi-line fields, blank
separators and missing final newline) — exact field-name recognition by the `startswith(b"<Name>:")` tests (so fields whose
names are prefixes or extensions of the interesting ones are inert), value extraction from a rendered field line, the effect
of a blank line (flush of exactly the (path, size) of the stanza, then reset), the synthetic final blank line, filter and
ignore_errors semantics.  The corresponding refinement for Sources indices (hash-section tracking, file lines) is checked three-way by the harness
(real parsers / model / independent stanza-based reference) and is **not** proved (partial); neither is the byte-level
`splitLines`/decompression/mmap layer.
-/
namespace AptMirror
namespace Index
open Str

private def noFilterR : Filter := { includeSource := [], excludeSource := [], includeBinary := [], excludeBinary := [] }

/-- **C09 (field names are recognised exactly).** For colon-free names, a line `name: …` passes the test
    `startswith(key + ":")` iff `name = key`: longer (`Package-Type`, `Installed-Size`, `Filename-Extra`) and shorter names
    never match. -/
theorem C09_prefix_exact (key name rest : S) (hk : ':' ∉ key) (hn : ':' ∉ name) :
    startsWith (name ++ ':' :: rest) (key ++ [':']) = true ↔ name = key := by
  unfold startsWith
  constructor
  · intro h
    induction key generalizing name with
    | nil =>
      cases name with
      | nil => rfl
      | cons c cs =>
        simp only [List.nil_append, List.cons_append, List.isPrefixOf, Bool.and_eq_true, beq_iff_eq] at h
        exact absurd (by rw [← h.1]; exact List.mem_cons_self) hn
    | cons k ks ih =>
      cases name with
      | nil =>
        simp only [List.nil_append, List.cons_append, List.isPrefixOf, Bool.and_eq_true, beq_iff_eq] at h
        exact absurd (by rw [h.1]; exact List.mem_cons_self) hk
      | cons c cs =>
        simp only [List.cons_append, List.isPrefixOf, Bool.and_eq_true, beq_iff_eq] at h
        have := ih cs (fun hm => hk (List.mem_cons_of_mem _ hm)) (fun hm => hn (List.mem_cons_of_mem _ hm)) h.2
        rw [h.1, this]
  · rintro rfl
    induction name with
    | nil => simp [List.isPrefixOf]
    | cons c cs ih =>
      simp only [List.cons_append, List.isPrefixOf, beq_self_eq_true, Bool.true_and]
      exact ih (fun hm => hk (List.mem_cons_of_mem _ hm)) (fun hm => hn (List.mem_cons_of_mem _ hm))

/-- continuation lines (leading blank) and blank lines never look like a field of interest -/
theorem C09_continuation_inert (key rest : S) (c : Char) (hk : key.head? ≠ some c) (hne : key ≠ []) :
    startsWith (c :: rest) (key ++ [':']) = false := by
  unfold startsWith
  cases key with
  | nil => exact absurd rfl hne
  | cons k ks =>
    simp only [List.cons_append, List.isPrefixOf, Bool.and_eq_false_iff, beq_eq_false_iff_ne]
    left; intro e; apply hk; simp [e]

/-- **C09 (filters).** `package_allowed` is exactly the documented four-set predicate. -/
theorem C09_filter_spec (f : Filter) (src pkg : S) (hp : pkg ≠ []) :
    f.allowed src (some pkg) = true ↔
      (f.includeSource = [] ∨ src ∈ f.includeSource) ∧ (src ∉ f.excludeSource) ∧
      (f.includeBinary = [] ∨ pkg ∈ f.includeBinary) ∧ (pkg ∉ f.excludeBinary) := by
  unfold Filter.allowed
  have hpe : pkg.isEmpty = false := by cases pkg with | nil => exact absurd rfl hp | cons _ _ => rfl
  by_cases h1 : f.includeSource = []
  · by_cases h2 : src ∈ f.excludeSource
    · have : f.excludeSource ≠ [] := fun e => by rw [e] at h2; cases h2
      simp [h1, h2, this]
    · by_cases h3 : f.includeBinary = []
      · by_cases h4 : pkg ∈ f.excludeBinary
        · have : f.excludeBinary ≠ [] := fun e => by rw [e] at h4; cases h4
          simp [h1, h2, h3, h4, hpe, this]
        · simp [h1, h2, h3, h4, hpe]
      · by_cases h5 : pkg ∈ f.includeBinary
        · by_cases h4 : pkg ∈ f.excludeBinary
          · have : f.excludeBinary ≠ [] := fun e => by rw [e] at h4; cases h4
            simp [h1, h2, h3, h4, h5, hpe, this]
          · simp [h1, h2, h3, h4, h5, hpe]
        · simp [h1, h2, h3, h5, hpe]
  · by_cases h0 : src ∈ f.includeSource
    · by_cases h2 : src ∈ f.excludeSource
      · have : f.excludeSource ≠ [] := fun e => by rw [e] at h2; cases h2
        simp [h1, h0, h2, this]
      · by_cases h3 : f.includeBinary = []
        · by_cases h4 : pkg ∈ f.excludeBinary
          · have : f.excludeBinary ≠ [] := fun e => by rw [e] at h4; cases h4
            simp [h1, h0, h2, h3, h4, hpe, this]
          · simp [h1, h0, h2, h3, h4, hpe]
        · by_cases h5 : pkg ∈ f.includeBinary
          · by_cases h4 : pkg ∈ f.excludeBinary
            · have : f.excludeBinary ≠ [] := fun e => by rw [e] at h4; cases h4
              simp [h1, h0, h2, h3, h4, h5, hpe, this]
            · simp [h1, h0, h2, h3, h4, h5, hpe]
          · simp [h1, h0, h2, h3, h5, hpe]
    · simp [h1, h0]

/-- **C09 (ignore_errors is exact).** A file is marked iff one of the listed paths is a component-wise prefix of its path
    (the path itself or a directory above it) — `pool/mai` does not mark `pool/main/...`. -/
theorem C09_ignore_exact (ignored : List Path) (p : Path) :
    shouldIgnore ignored p = true ↔ ∃ i ∈ ignored, ∃ rest, p = i ++ rest := by
  unfold shouldIgnore
  simp only [List.any_eq_true]
  constructor
  · rintro ⟨i, hi, hpre⟩
    refine ⟨i, hi, ?_⟩
    have : ∀ (a b : Path), isPrefix a b = true → ∃ r, b = a ++ r := by
      intro a
      induction a with
      | nil => intro b _; exact ⟨b, rfl⟩
      | cons x xs ih =>
        intro b hb
        cases b with
        | nil => simp [isPrefix] at hb
        | cons y ys =>
          simp only [isPrefix, Bool.and_eq_true, beq_iff_eq] at hb
          obtain ⟨r, hr⟩ := ih ys hb.2
          exact ⟨r, by rw [hb.1, hr]; rfl⟩
    exact this i p hpre
  · rintro ⟨i, hi, rest, rfl⟩
    refine ⟨i, hi, ?_⟩
    have : ∀ (a r : Path), isPrefix a (a ++ r) = true := by
      intro a r; induction a with
      | nil => rfl
      | cons x xs ih => simp [isPrefix, ih]
    exact this i rest

/-- **C09 (a blank line flushes exactly the stanza's file and resets).** With Package, an accepted Filename and a
    non-zero Size collected, and the filters allowing the package (matched by Source, defaulting to its own name), a blank
    line adds exactly `(Filename, Size)` to the pool and clears the per-stanza state. -/
theorem C09_blank_flushes (flt : Filter) (ign : List Path) (s : PState) (pool : List PoolFile) (pkg : S) (fp : Path)
    (h1 : s.package = some pkg) (h2 : s.filePath = some fp) (hp : pkg ≠ []) (hs : s.size ≠ 0)
    (hf : flt.allowed (s.srcName pkg) (some pkg) = true) :
    packagesLine flt ign (s, pool) ['\n'] =
      .ok ({}, putPool pool { path := fp, size := s.size, ignoreErrors := shouldIgnore ign fp }) := by
  have hpe : pkg.isEmpty = false := by cases pkg with | nil => exact absurd rfl hp | cons _ _ => rfl
  simp [packagesLine, h1, h2, hpe, hs, hf, pure, Except.pure]

/-- a stanza lacking Package, Filename or a non-zero Size yields nothing -/
theorem C09_blank_skips (flt : Filter) (ign : List Path) (s : PState) (pool : List PoolFile)
    (h : s.package = none ∨ s.filePath = none ∨ s.size = 0) :
    packagesLine flt ign (s, pool) ['\n'] = .ok ({}, pool) := by
  rcases h with h | h | h
  · simp [packagesLine, h, pure, Except.pure]
  · cases hp : s.package <;> simp [packagesLine, h, hp, pure, Except.pure]
  · cases hp : s.package with
    | none => simp [packagesLine, hp, pure, Except.pure]
    | some pkg => cases hf : s.filePath <;> simp [packagesLine, hp, hf, h, pure, Except.pure]

/-- **C09 (missing final newline / no trailing blank line).** The machine always appends one synthetic blank line, so the
    last stanza is flushed whether or not the file ends with a blank line. -/
theorem C09_final_flush (flt : Filter) (ign : List Path) (lines : List S) (pool : List PoolFile) :
    packagesMachine flt ign lines pool = (do
      let r ← lines.foldlM (packagesLine flt ign) ({}, pool)
      let r' ← packagesLine flt ign r ['\n']
      pure r'.2) := by
  unfold packagesMachine
  rw [List.foldlM_append]
  simp [List.foldlM]

theorem specIndex_blanks (flt : Filter) (ign : List Path) (sts : List Stanza) (last : Stanza) (k : Nat) (pool : List PoolFile) :
    specIndex flt ign (sts ++ [{ last with blanks := k }]) pool = specIndex flt ign (sts ++ [last]) pool := by
  simp [specIndex, List.foldlM_append]

/-- **C09 (Packages: the line machine computes the stanza-level meaning of the index).** For every sequence of stanzas of
    well-formed fields — any field order, any fields besides the four that are read (including names that are prefixes or
    extensions of them), multi-line fields, one or more blank lines between stanzas, any number (also none) after the last
    one, and a last line with or without its newline — `PackagesParser._do_parse_index` derives exactly what reading each
    stanza on its own yields: at most one `(Filename, Size)` per stanza, under the filter and ignore rules (`flush`).
    A `Size` that is no integer is the same error on both sides. -/
theorem C09_packages_refines (flt : Filter) (ign : List Path) (sts : List Stanza) (last : Stanza)
    (hb : ∀ st ∈ sts, 1 ≤ st.blanks) (hok : ∀ st ∈ sts ++ [last], ∀ f ∈ st.fields, f.OK) (pool : List PoolFile) :
    packagesMachine flt ign ((sts ++ [last]).flatMap Stanza.lines) pool = specIndex flt ign (sts ++ [last]) pool := by
  have hlines : (sts ++ [last]).flatMap Stanza.lines ++ [['\n']] =
      (sts ++ [{ last with blanks := last.blanks + 1 }]).flatMap Stanza.lines := by
    simp only [List.flatMap_append, List.flatMap_cons, List.flatMap_nil, List.append_nil, Stanza.lines, List.append_assoc]
    congr 2
    rw [List.replicate_succ']
  unfold packagesMachine
  rw [hlines, packages_stanzas flt ign _ ?_ ?_ pool, specIndex_blanks]
  · cases specIndex flt ign (sts ++ [last]) pool <;> rfl
  · intro st hst
    rcases List.mem_append.mp hst with h | h
    · exact hb st h
    · simp only [List.mem_singleton] at h; subst h; simp
  · intro st hst f hf
    rcases List.mem_append.mp hst with h | h
    · exact hok st (List.mem_append_left _ h) f hf
    · simp only [List.mem_singleton] at h; subst h
      exact hok last (by simp) f hf

/-- **C09 (the stanza's package name is its `Package` field).** Whatever else the stanza contains and in whatever order, the
    name the filters are applied to and the stanza is kept under is the value of its `Package` field. -/
theorem C09_package_is_field (fs : List Field) (s' : PState) (h : specFields {} fs = .ok s') :
    s'.package = (lastField kPackage fs).map (fun f => f.rest.drop 1) := by
  have := specFields_package fs {} s' h
  rw [this]
  cases lastField kPackage fs <;> rfl

/-- an empty index derives nothing -/
theorem C09_packages_empty (flt : Filter) (ign : List Path) (pool : List PoolFile) :
    packagesMachine flt ign [] pool = .ok pool := by
  simp [packagesMachine, List.foldlM, packagesLine_blank, flush_empty, bind, Except.bind, pure, Except.pure]

/-! ### non-vacuity of the refinement: the fields of the example below are well-formed and render to its lines -/
private def fPkg : Field := { name := kPackage, rest := " a".toList }
private def fDecoy : Field := { name := "Package-Type".toList, rest := " udeb".toList }
private def fFile : Field := { name := kFilename, rest := " pool/a_1.deb".toList }
private def fDesc : Field := { name := "Description".toList, rest := " x".toList, cont := [("more".toList, ['\n']), (".".toList, ['\n'])] }
private def fSize : Field := { name := kSize, rest := " 42".toList, eol := [] }
example : fPkg.OK :=
  ⟨⟨by decide, 'P', "ackage".toList, by decide, by decide⟩, Or.inl rfl,
   fun _ => ⟨"a".toList, rfl, ⟨'a', [], rfl, by decide⟩, ⟨[], 'a', rfl, by decide⟩⟩⟩
example : fSize.OK :=
  ⟨⟨by decide, 'S', "ize".toList, by decide, by decide⟩, Or.inr rfl,
   fun _ => ⟨"42".toList, rfl, ⟨'4', ['2'], rfl, by decide⟩, ⟨['4'], '2', rfl, by decide⟩⟩⟩
example : ((⟨[fPkg, fDecoy, fFile, fDesc, fSize], 0⟩ : Stanza).lines) =
    splitLines "Package: a\nPackage-Type: udeb\nFilename: pool/a_1.deb\nDescription: x\n more\n .\nSize: 42".toList := by decide
example : (specIndex noFilterR [] [⟨[fPkg, fDecoy, fFile, fDesc, fSize], 0⟩] []).toOption =
    some [{ path := ["pool", "a_1.deb"], size := 42, ignoreErrors := false }] := by decide +kernel

/-! ### non-vacuity: a concrete index with a decoy field, a multi-line field, two separators and no final newline -/
private def exText : S :=
  ("Package: a\nPackage-Type: udeb\nInstalled-Size: 9\nFilename: pool/a_1.deb\nDescription: x\n more\n .\nSize: 42\nSHA256: ab\n\n\n" ++
   "Size: 7\nPackage: b\nSource: s (1.0)\nFilename: pool/b_1.deb").toList
private def noFilter : Filter := { includeSource := [], excludeSource := [], includeBinary := [], excludeBinary := [] }
example : (packagesMachine noFilter [["pool", "b_1.deb"]] (splitLines exText) []).toOption =
    some [{ path := ["pool", "a_1.deb"], size := 42, ignoreErrors := false }, { path := ["pool", "b_1.deb"], size := 7, ignoreErrors := true }] := by decide +kernel
example : (packagesMachine { noFilter with excludeSource := ["s".toList] } [] (splitLines exText) []).toOption =
    some [{ path := ["pool", "a_1.deb"], size := 42, ignoreErrors := false }] := by decide +kernel

end Index
end AptMirror
