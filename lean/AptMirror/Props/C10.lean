import AptMirror.Model.Release
import AptMirror.Props.C01
/-!
# C10 — index selection follows configured codenames, components and architectures

> From a Release file the tool fetches every index group that belongs to a configured component and - for
> architecture-specific files (binary-<arch>, Contents-<arch>, Components- and Commands-<arch>) - to an
> architecture configured for it or to 'all', and source indices when sources are configured; it does not
> fetch entries of unconfigured components or architectures, binary indices when only sources are configured
> (and vice versa), release files listed inside Release, or entries with a non-positive size. All compression
> variants of one index form one group that is satisfied by any single variant (…) and an index is never
> published in a variant whose size differs from the Release entry.

Model: `Model/Select.lean` (`allowed`: the substring heuristics of `_metadata_file_allowed`, literally, on
the string of the path) and `Model/Release.lean` (`processEntry`: size / release-name / safety filters and
grouping).  Specification on *structured* entries (`Entry`, `render`, `mustFetch`, `mustNot`).

`C10_unconfigured_component` is unbounded: for **every** configuration and every entry `<component>/<dir>/<file>` (any strings
for the three parts, nested components included) whose component is not configured, the entry is not selected.

`C10_must` / `C10_mustnot` are **finite-universe theorems** (labelled as such, DESIGN §6): they are decided
completely, by kernel evaluation, for every configuration and every entry of the representative universe
below (3 components incl. a nested one + 1 unconfigurable component, architectures amd64/i386/arm64/all,
the 8 standard index kinds) — 243 configurations × 90 entries.  They are not the unbounded statement over all
names; the correspondence harness covers random universes against the real code.
-/
namespace AptMirror
open Str

inductive Kind | binaryPackages | binaryRelease | sources | contents | contentsSource | dep11 | cnf | i18n
deriving DecidableEq, Repr

structure Entry where
  comp : S
  kind : Kind
  arch : S
  ext : S
deriving DecidableEq, Repr

def render (e : Entry) : S :=
  let tail : S := match e.kind with
    | .binaryPackages => lit "binary-" ++ e.arch ++ lit "/Packages"
    | .binaryRelease => lit "binary-" ++ e.arch ++ lit "/Release"
    | .sources => lit "source/Sources"
    | .contents => lit "Contents-" ++ e.arch
    | .contentsSource => lit "Contents-source"
    | .dep11 => lit "dep11/Components-" ++ e.arch ++ lit ".yml"
    | .cnf => lit "cnf/Commands-" ++ e.arch
    | .i18n => lit "i18n/Translation-en"
  e.comp ++ ['/'] ++ tail ++ (if e.kind = .binaryRelease then [] else e.ext)

def isNested (comp : S) : Bool := comp.contains '/'

def archOK (k : Component) (a : S) : Bool := !k.arches.isEmpty && (k.arches.contains a || a = lit "all")

/-- what the property says MUST be fetched -/
def mustFetch (c : CodenameCfg) (e : Entry) : Bool :=
  match c.components.find? (·.name = e.comp) with
  | none => false
  | some k =>
    match e.kind with
    | .binaryPackages | .binaryRelease => archOK k e.arch
    | .dep11 | .cnf => archOK k e.arch
    | .contents => !isNested e.comp && archOK k e.arch
    | .sources => k.mirrorSource
    | .contentsSource => !isNested e.comp && k.mirrorSource
    | .i18n => !k.arches.isEmpty

/-- what the property says must NOT be fetched -/
def mustNot (c : CodenameCfg) (e : Entry) : Bool :=
  let allArches := c.components.flatMap (·.arches)
  match c.components.find? (·.name = e.comp) with
  | none => true
  | some k =>
    match e.kind with
    | .binaryPackages | .binaryRelease => !c.shouldMirrorBinaries || (!k.arches.contains e.arch && e.arch ≠ lit "all")
    | .dep11 | .cnf => !c.shouldMirrorBinaries || (!allArches.contains e.arch && e.arch ≠ lit "all")
    | .contents => !allArches.contains e.arch && e.arch ≠ lit "all"
    | .sources | .contentsSource => !c.shouldMirrorSource
    | .i18n => !c.shouldMirrorBinaries

/-! #### the representative universe -/
def uComps : List S := [lit "main", lit "contrib", lit "main/debian-installer"]
def archSets : List (List S) := [[], [lit "amd64"], [lit "i386"], [lit "amd64", lit "i386"]]

/-- options for one component: absent, or present with an architecture set and a source flag -/
def compOptions (name : S) (sets : List (List S)) : List (Option Component) :=
  none :: sets.flatMap fun a => [some { name := name, mirrorSource := false, arches := a },
                                 some { name := name, mirrorSource := true, arches := a }]

def uConfigs : List CodenameCfg :=
  (compOptions (lit "main") archSets).flatMap fun a =>
  (compOptions (lit "contrib") archSets).flatMap fun b =>
  ([none, some { name := lit "main/debian-installer", mirrorSource := false, arches := [lit "amd64"] },
    some { name := lit "main/debian-installer", mirrorSource := true, arches := [lit "amd64"] }] : List (Option Component)).map fun d =>
    { components := [a, b, d].filterMap id }

def uKinds : List Kind := [.binaryPackages, .binaryRelease, .sources, .contents, .contentsSource, .dep11, .cnf, .i18n]

/-- files directly below a nested component directory (`main/debian-installer/Contents-*`) are not a
    standard archive layout and are not part of the universe (DESIGN §8 S8) -/
def uEntries : List Entry :=
  ((uComps ++ [lit "non-free"]).flatMap fun c => uKinds.flatMap fun k =>
    [lit "amd64", lit "arm64", lit "all"].map fun a => { comp := c, kind := k, arch := a, ext := lit ".gz" }).filter
  fun e => !(isNested e.comp && (e.kind = .contents || e.kind = .contentsSource))

def universeOK : Bool :=
  uConfigs.all fun c => uEntries.all fun e =>
    (!mustFetch c e || allowed c (render e)) && (!mustNot c e || !allowed c (render e))

theorem universe_decided : universeOK = true := by decide +kernel

/-- **C10 (must fetch; finite universe).** -/
theorem C10_must (c : CodenameCfg) (hc : c ∈ uConfigs) (e : Entry) (he : e ∈ uEntries) (h : mustFetch c e = true) :
    allowed c (render e) = true := by
  have := universe_decided
  unfold universeOK at this
  rw [List.all_eq_true] at this
  have h1 := this c hc
  rw [List.all_eq_true] at h1
  have h2 := h1 e he
  simp only [Bool.and_eq_true, Bool.or_eq_true, Bool.not_eq_true'] at h2
  rcases h2.1 with h3 | h3
  · rw [h] at h3; cases h3
  · exact h3

/-- **C10 (must not fetch; finite universe).** -/
theorem C10_mustnot (c : CodenameCfg) (hc : c ∈ uConfigs) (e : Entry) (he : e ∈ uEntries) (h : mustNot c e = true) :
    allowed c (render e) = false := by
  have := universe_decided
  unfold universeOK at this
  rw [List.all_eq_true] at this
  have h1 := this c hc
  rw [List.all_eq_true] at h1
  have h2 := h1 e he
  simp only [Bool.and_eq_true, Bool.or_eq_true, Bool.not_eq_true'] at h2
  rcases h2.2 with h3 | h3
  · rw [h] at h3; cases h3
  · exact h3


/-! ### unbounded: entries of unconfigured components are never selected -/

theorem splitOn_ne_nil (ch : Char) (s : S) : splitOn ch s ≠ [] := by
  induction s with
  | nil => simp [splitOn]
  | cons c cs ih =>
    unfold splitOn
    split
    · simp
    · split <;> simp

theorem splitOn_append_sep (ch : Char) (a b : S) : splitOn ch (a ++ ch :: b) = splitOn ch a ++ splitOn ch b := by
  induction a with
  | nil => simp [splitOn]
  | cons c cs ih =>
    by_cases hc : c = ch
    · subst hc
      simp only [List.cons_append, splitOn, if_true]
      rw [ih]
      try rfl
    · simp only [List.cons_append, splitOn, hc, if_false]
      rw [ih]
      cases h : splitOn ch cs with
      | nil => exact absurd h (splitOn_ne_nil ch cs)
      | cons f fs => simp

theorem splitOn_nosep (ch : Char) (d : S) (h : ch ∉ d) : splitOn ch d = [d] := by
  induction d with
  | nil => rfl
  | cons c cs ih =>
    have hc : c ≠ ch := fun e => h (by rw [e]; exact List.mem_cons_self)
    simp only [splitOn, hc, if_false]
    rw [ih (fun hm => h (List.mem_cons_of_mem _ hm))]

theorem join_splitOn (ch : Char) (s : S) : join [ch] (splitOn ch s) = s := by
  induction s with
  | nil => rfl
  | cons c cs ih =>
    by_cases hc : c = ch
    · subst hc
      simp only [splitOn, if_true]
      cases h : splitOn c cs with
      | nil => exact absurd h (splitOn_ne_nil c cs)
      | cons f fs =>
        rw [h] at ih
        simp only [join, List.nil_append, List.singleton_append]
        rw [ih]
    · simp only [splitOn, hc, if_false]
      cases h : splitOn ch cs with
      | nil => exact absurd h (splitOn_ne_nil ch cs)
      | cons f fs =>
        rw [h] at ih
        cases fs with
        | nil =>
          simp only [join] at ih ⊢
          rw [ih]
        | cons g gs =>
          simp only [join] at ih ⊢
          rw [← ih]
          simp

/-- the component the code extracts from `<component>/<dir>/<file>` is `<component>` -/
theorem rsplitHead_two (comp d f : S) (hd : '/' ∉ d) (hf : '/' ∉ f) :
    rsplitHead '/' 2 (comp ++ '/' :: d ++ '/' :: f) = comp := by
  unfold rsplitHead
  have e : comp ++ '/' :: d ++ '/' :: f = comp ++ '/' :: (d ++ '/' :: f) := by simp
  rw [e, splitOn_append_sep, splitOn_append_sep, splitOn_nosep '/' d hd, splitOn_nosep '/' f hf]
  have hn : 1 ≤ (splitOn '/' comp).length := by
    cases h : splitOn '/' comp with
    | nil => exact absurd h (splitOn_ne_nil '/' comp)
    | cons _ _ => simp
  have hlen : (splitOn '/' comp ++ ([d] ++ [f])).length = (splitOn '/' comp).length + 2 := by simp
  simp only [hlen]
  have hmin : min 2 ((splitOn '/' comp).length + 2 - 1) = 2 := by omega
  rw [hmin]
  have htake : (splitOn '/' comp ++ ([d] ++ [f])).take ((splitOn '/' comp).length + 2 - 2) = splitOn '/' comp := by
    rw [show (splitOn '/' comp).length + 2 - 2 = (splitOn '/' comp).length by omega]
    exact List.take_left' rfl
  rw [htake, join_splitOn]

/-- **C10 (entries of unconfigured components are not fetched; unbounded).** Whatever the configuration, an entry
    `<component>/<dir>/<file>` — `<component>` any string, nested ones (`main/debian-installer`) included, `<dir>` and `<file>` any
    names without a slash — whose component is not configured for the codename is never selected. -/
theorem C10_unconfigured_component (c : CodenameCfg) (comp d f : S) (hd : '/' ∉ d) (hf : '/' ∉ f)
    (hc : ∀ k ∈ c.components, k.name ≠ comp) : allowed c (comp ++ '/' :: d ++ '/' :: f) = false := by
  have hcount : 2 ≤ count '/' (comp ++ '/' :: d ++ '/' :: f) := by
    unfold count
    simp only [List.count_append, List.count_cons_self]
    omega
  have hfind : c.components.find? (fun k => decide (k.name = comp)) = none := by
    rw [List.find?_eq_none]
    intro k hk
    simpa using hc k hk
  unfold allowed
  simp only []
  split
  · rfl
  · split
    · rfl
    · have hsplit : min (count '/' (comp ++ '/' :: d ++ '/' :: f)) 2 = 2 := by omega
      simp only [hsplit, rsplitHead_two comp d f hd hf, hfind]
      simp

example : allowed { components := [{ name := lit "main", mirrorSource := true, arches := [lit "amd64"] }] }
    (lit "main/debian-installer/binary-amd64/Packages.xz") = false :=
  C10_unconfigured_component _ (lit "main/debian-installer") (lit "binary-amd64") (lit "Packages.xz") (by decide) (by decide) (by decide)

/-- **C10 (binary indices when only sources are configured; unbounded).** If no component of the codename has an architecture,
    nothing whose path contains `/binary-`, `/cnf/`, `/dep11/` or `/i18n/` is selected - whatever the names. -/
theorem C10_sources_only (c : CodenameCfg) (s : S) (hb : c.shouldMirrorBinaries = false)
    (hs : isInfix (lit "/binary-") s = true ∨ isInfix (lit "/cnf/") s = true ∨ isInfix (lit "/dep11/") s = true ∨
      isInfix (lit "/i18n/") s = true) : allowed c s = false := by
  unfold allowed
  simp only []
  split
  · rfl
  · split
    · rfl
    · rename_i _ h2
      exfalso
      apply h2
      simp only [hb, Bool.not_false, Bool.true_and, List.any_cons, List.any_nil, Bool.or_false, Bool.or_eq_true]
      rcases hs with h | h | h | h <;> simp [h]

/-- **C10 (source indices when only binaries are configured; unbounded).** If no component mirrors sources, nothing below a
    `/source/` directory and no `Contents-source*` file is selected. -/
theorem C10_binaries_only (c : CodenameCfg) (s : S) (hsrc : c.shouldMirrorSource = false)
    (hs : isInfix (lit "/source/") s = true ∨ startsWith (baseName s) (lit "Contents-source") = true) : allowed c s = false := by
  unfold allowed
  simp only []
  split
  · rfl
  · rename_i h1
    exfalso
    apply h1
    simp only [hsrc, Bool.not_false, Bool.true_and, Bool.or_eq_true]
    exact hs

/-- **C10 (binary index of an unconfigured architecture; unbounded, under the guard the substring heuristics force).** For
    `<component>/<dir>/<file>` with a `/binary-` part and no `source` in it: if the component's record (the first one of that
    name) lists no architecture that occurs as a substring of the path, and `-all` does not occur either, the entry is not
    selected.  (Without the guard the statement is false of the code: an architecture that is a substring of another one's
    name is matched - the reason why the exact clause is decided over a finite universe of real names, `C10_mustnot`.) -/
theorem C10_unconfigured_arch (c : CodenameCfg) (k : Component) (d f : S) (hd : '/' ∉ d) (hf : '/' ∉ f)
    (hk : c.components.find? (fun x => decide (x.name = k.name)) = some k)
    (hbin : isInfix (lit "/binary-") (k.name ++ '/' :: d ++ '/' :: f) = true)
    (hnosrc : isInfix (lit "source") (k.name ++ '/' :: d ++ '/' :: f) = false)
    (hnone : ∀ a ∈ k.arches ++ [lit "-all"], isInfix a (k.name ++ '/' :: d ++ '/' :: f) = false) :
    allowed c (k.name ++ '/' :: d ++ '/' :: f) = false := by
  have hcount : 2 ≤ count '/' (k.name ++ '/' :: d ++ '/' :: f) := by
    unfold count
    simp only [List.count_append, List.count_cons_self]
    omega
  have hany : (k.arches ++ [lit "-all"]).any (fun a => isInfix a (k.name ++ '/' :: d ++ '/' :: f)) = false := by
    rw [List.any_eq_false]
    intro a ha
    have := hnone a ha
    simpa using this
  unfold allowed
  simp only []
  split
  · rfl
  · split
    · rfl
    · have hsplit : min (count '/' (k.name ++ '/' :: d ++ '/' :: f)) 2 = 2 := by omega
      simp only [hsplit, rsplitHead_two k.name d f hd hf, hk, hbin, hnosrc, hany]
      simp

example : allowed { components := [{ name := lit "main", mirrorSource := false, arches := [lit "amd64"] }] }
    (lit "main/binary-i386/Packages.xz") = false :=
  C10_unconfigured_arch _ { name := lit "main", mirrorSource := false, arches := [lit "amd64"] } (lit "binary-i386") (lit "Packages.xz")
    (by decide) (by decide) (by decide) (by decide) (by decide) (by decide)

example : allowed { components := [{ name := lit "main", mirrorSource := true, arches := [] }] } (lit "main/binary-amd64/Packages") = false :=
  C10_sources_only _ _ (by decide) (Or.inl (by decide))

example : allowed { components := [{ name := lit "main", mirrorSource := false, arches := [lit "amd64"] }] } (lit "main/source/Sources.xz") = false :=
  C10_binaries_only _ _ (by decide) (Or.inl (by decide))

/-- **C10 (non-positive sizes, release files inside Release, unsafe names are never selected)** — for every
    release file, policy, configuration and prior groups (unbounded). -/
theorem C10_filtered (f : RelFile) (policy : Cfg.ByHashOpt) (sel : SelCfg) (ign : List Path) (a : Algo) (g : Groups)
    (e : RelEntry) (h : parseSize e.sizeRaw ≤ 0 ∨ isReleaseName e.name = true ∨ lexSafe e.parts = false ∨
      sel.allowed (pathStr e.parts) = false) :
    processEntry f policy sel ign a g e = g := by
  unfold processEntry
  rcases h with h | h | h | h
  · by_cases h1 : lexSafe e.parts = true <;> simp [h1, h]
  · by_cases h1 : lexSafe e.parts = true <;> by_cases h2 : parseSize e.sizeRaw ≤ 0 <;> simp [h1, h2, h]
  · simp [h]
  · by_cases h1 : lexSafe e.parts = true <;> by_cases h2 : parseSize e.sizeRaw ≤ 0 <;>
      by_cases h3 : isReleaseName e.name = true <;> simp [h1, h2, h3, h]

/-- **C10 (a group is satisfied by any single variant).** A clean index stage has obtained, for every
    group, at least one of its variants — which one does not matter, and the unavailability of the others is
    not an error (corollary of `C01_clean_stage_all_obtained`; the variants of one group are tried in turn by
    `tryVariants` and the first acceptable one ends the transfer). -/
theorem C10_group_any_variant (root : Path) (q : List DFile) (s : DState)
    (h0 : s.book.errCount = 0 ∧ s.book.missCount = 0)
    (hclean : (download root q s).book.errCount = 0 ∧ (download root q s).book.missCount = 0)
    (f : DFile) (hf : f ∈ q) (hi : f.ignoreErrors = false) (hm : f.ignoreMissing = false) :
    ∃ v ∈ f.variants, v ∈ Reported (download root q s) :=
  C01_clean_stage_all_obtained root q s h0 hclean f hf hi hm

/-- **C10 (a published variant has the size the Release lists).** Every variant of a group built from Release
    entries carries the size of its own entry (no unsized variant exists after fix ab648fb), and an obtained
    variant has exactly that size on disk (`C05_obtained_sound_partial`). -/
theorem C10_variant_size (p : Path) (size : Nat) (a : Algo) (h : String) (bh : Bool) :
    ∀ v ∈ (DFile.fromHashedPath p size a h bh).variants, v.size = size ∧ v.path = p := by
  intro v hv
  unfold DFile.fromHashedPath DFile.addVariant at hv
  by_cases hc : compOfSuffix (suffixOf p) = Comp.none
  · simp [hc] at hv; rw [hv]; exact ⟨rfl, rfl⟩
  · simp [hc] at hv; rw [hv]; exact ⟨rfl, rfl⟩

/-! ### non-vacuity -/
example : uConfigs.length = 243 ∧ uEntries.length = 90 := by decide +kernel
example : render { comp := lit "main", kind := .binaryPackages, arch := lit "amd64", ext := lit ".xz" } = lit "main/binary-amd64/Packages.xz" := by decide

end AptMirror
