import AptMirror.Model.Http
/-!
# C18 — HTTP transport reports what the server did and honours transport settings (partial)

> Against a real HTTP server a 2xx response is reported with the server's Content-Length and Last-Modified and streams exactly
> the body bytes, 4xx is reported as missing, 5xx and connection or protocol failures as errors, a body shorter than its
> Content-Length aborts the transfer, and redirects are followed, so that the end-to-end guarantees C01, C02 and C05 hold over
> real HTTP exactly as over a simulated transport. Every request carries the configured User-Agent and URL credentials, goes
> through the configured proxy (with its credentials) when one is enabled, and over TLS uses the configured CA bundle,
> verification switch and client certificate.

Proved here: the decision logic that is the tool's own — the status/exception mapping of `HTTPDownloader.stream` and how
`download_file` reads it (`C18_status_contract`, `C18_exception_contract`), which transport serves a request and what it was
built with (`C18_settings_reach_transport`; false for the client certificate before fix F-C18a:
`C18_legacy_cert_counterexample`), the verification switch (`C18_verify_table`), proxy selection (`C18_proxy_table`) and that
percent-encoded proxy credentials decode to exactly the configured ones and cannot be confused with URL syntax
(`C18_quote_roundtrip`, `C18_quote_clean`).  Because C05/C12 are proved for *every* response script, they hold for every
behaviour the mapping can produce.  Wire behaviour of httpx/h11/h2/ssl is exercised on a loopback server, not proved.
Known finding F-C18b: a protocol failure other than "Server disconnected" is reported as a free retry, not as an error
(`C18_legacy_protocol_retry_counterexample`; `C18_protocol_failure_is_error_partial` holds for the remaining cases).
-/
namespace AptMirror
namespace Http

/-- **C18 (status mapping).** 2xx: the body is read, with the announced length and date passed on unchanged; 4xx: missing;
    5xx: error — as seen by `download_file`. -/
theorem C18_status_contract (m : Mode) (st : Nat) (cl : Option Nat) (lm : Option Int) (body : Nat) (abort : Bool) (tag : Nat) :
    (200 ≤ st ∧ st < 300 → toResp (classify m (.response st cl lm)) body abort tag = .ok cl lm body abort tag) ∧
    (400 ≤ st ∧ st < 500 → toResp (classify m (.response st cl lm)) body abort tag = .missing) ∧
    (500 ≤ st ∧ st < 600 → toResp (classify m (.response st cl lm)) body abort tag = .error) := by
  refine ⟨?_, ?_, ?_⟩ <;> intro h <;> simp only [classify, toResp]
  · have h1 : ¬ (400 ≤ st ∧ st < 500) := by omega
    have h2 : ¬ (500 ≤ st ∧ st < 600) := by omega
    simp [h1, h2]
  · simp [h]
  · have h1 : ¬ (400 ≤ st ∧ st < 500) := by omega
    simp [h1, h]

/-- a response is never both missing and an error -/
theorem C18_exclusive (m : Mode) (w : Wire) : ¬ ((classify m w).missing = true ∧ (classify m w).error = true) := by
  cases w with
  | response st cl lm => simp only [classify, decide_eq_true_eq]; omega
  | protocolError d => cases m <;> simp [classify]
  | otherException => simp [classify]

/-- **C18 (connection failures are errors).** Every exception other than a RemoteProtocolError, and a RemoteProtocolError
    saying the server disconnected (reset before the headers), is reported as an error and consumes a try. -/
theorem C18_exception_contract (m : Mode) (body : Nat) (abort : Bool) (tag : Nat) :
    toResp (classify m .otherException) body abort tag = .error ∧
    toResp (classify m (.protocolError true)) body abort tag = .error := by
  cases m <;> simp [classify, toResp]

/-- **C18 (protocol failures are errors) — partial.** With the strict mapping every failure is an error.  The code as it
    stands is `legacy`; see the counterexample below (finding F-C18b). -/
theorem C18_protocol_failure_is_error_partial (d : Bool) (body : Nat) (abort : Bool) (tag : Nat) :
    toResp (classify .strict (.protocolError d)) body abort tag = .error := by
  simp [classify, toResp]

/-- F-C18b: a protocol failure whose message is not "Server disconnected…" (malformed Content-Length, a non-HTTP answer) is
    reported as `retry` with no error: `download_file` then repeats the request without consuming a try. -/
theorem C18_legacy_protocol_retry_counterexample :
    toResp (classify .legacy (.protocolError false)) 0 false 0 = .retry := by decide

/-- **C18 (the verification switch).** -/
theorem C18_verify_table (s : Settings) :
    (s.noCheck = true → s.verify = .off) ∧
    (s.noCheck = false → s.caBundle ≠ "" → s.verify = .bundle s.caBundle) ∧
    (s.noCheck = false → s.caBundle = "" → s.verify = .system) := by
  refine ⟨?_, ?_, ?_⟩ <;> intros <;> simp_all [Settings.verify]

/-- **C18 (settings reach the wire).** Whatever is configured, the transport that serves an http:// or https:// request was
    built with the configured verification mode, the configured client certificate (with its key when one is given), the
    proxy selected for that scheme, and HTTP/2 unless disabled. -/
theorem C18_settings_reach_transport (s : Settings) (scheme : String) (h : scheme = "http" ∨ scheme = "https") :
    transportFor true s scheme =
      { verify := s.verify, cert := s.clientCert, proxy := s.proxy.forScheme scheme, http2 := !s.http2Disable } := by
  rcases h with rfl | rfl <;> simp [transportFor, mounts, select, List.find?]

/-- F-C18a (fixed): before the fix the mounted transports were built without `cert=`, and since both schemes are always
    mounted the certificate-bearing default transport never served a request. -/
theorem C18_legacy_cert_counterexample :
    ∃ s : Settings, s.clientCert ≠ none ∧ (transportFor false s "https").cert = none :=
  ⟨{ noCheck := false, caBundle := "", certificate := "client.pem", privateKey := "", proxy := ⟨false, "", ""⟩, http2Disable := false },
   by decide, by decide⟩

/-- **C18 (proxy selection).** No proxy unless enabled; each scheme uses its own proxy setting only. -/
theorem C18_proxy_table (p : ProxyCfg) :
    (p.useProxy = false → ∀ sch, p.forScheme sch = none) ∧
    (p.useProxy = true → p.forScheme "http" = (if p.httpProxy ≠ "" then some p.httpProxy else none)) ∧
    (p.useProxy = true → p.forScheme "https" = (if p.httpsProxy ≠ "" then some p.httpsProxy else none)) := by
  refine ⟨?_, ?_, ?_⟩
  · intro h sch; simp [ProxyCfg.forScheme, h]
  · intro h; simp [ProxyCfg.forScheme, h]
  · intro h; simp [ProxyCfg.forScheme, h]

theorem unhex_hexDigit (n : Nat) (h : n < 16) : unhex (hexDigit n) = some n := by
  unfold hexDigit unhex
  by_cases h10 : n < 10
  · have : 48 ≤ 48 + n ∧ 48 + n ≤ 57 := by omega
    simp only [h10, if_true, this, and_self]
    congr 1; omega
  · have h1 : ¬ (48 ≤ 55 + n ∧ 55 + n ≤ 57) := by omega
    have h2 : 65 ≤ 55 + n ∧ 55 + n ≤ 70 := by omega
    simp only [h10, if_false, h1, h2, and_self, if_true]
    congr 1; omega

/-- **C18 (proxy credentials arrive as configured).** Decoding the percent-encoded user name / password gives back exactly
    the configured bytes — spaces, `+`, `@`, `:`, `/`, `%` and non-ASCII included. -/
theorem C18_quote_roundtrip (bs : List Nat) (h : ∀ b ∈ bs, b < 256) : unquote (quote bs) = bs := by
  induction bs with
  | nil => rfl
  | cons b rest ih =>
    have hb : b < 256 := h b List.mem_cons_self
    have ih' := ih (fun c hc => h c (List.mem_cons_of_mem _ hc))
    unfold quote
    by_cases hu : isUnreserved b = true
    · have hne : b ≠ 37 := by
        intro e; subst e; revert hu; decide
      simp only [hu, if_true]
      rw [unquote_cons_ne _ _ hne, ih']
    · simp only [hu, Bool.false_eq_true, if_false]
      simp only [unquote, if_true]
      rw [unhex_hexDigit _ (by omega), unhex_hexDigit _ (Nat.mod_lt _ (by omega))]
      simp only [ih']
      congr 1
      omega

/-- the encoded credentials consist of unreserved characters, `%` and hex digits only: no `:`, `@`, `/`, `+`, `?`, `#`
    that could be mistaken for URL syntax or be decoded differently by the receiver -/
theorem C18_quote_clean (bs : List Nat) (h : ∀ b ∈ bs, b < 256) :
    ∀ c ∈ quote bs, isUnreserved c = true ∨ c = 37 ∨ (48 ≤ c ∧ c ≤ 57) ∨ (65 ≤ c ∧ c ≤ 70) := by
  induction bs with
  | nil => intro c hc; cases hc
  | cons b rest ih =>
    have hb : b < 256 := h b List.mem_cons_self
    have ih' := ih (fun c hc => h c (List.mem_cons_of_mem _ hc))
    intro c hc
    unfold quote at hc
    by_cases hu : isUnreserved b = true
    · simp only [hu, if_true, List.mem_cons] at hc
      rcases hc with rfl | hc
      · exact Or.inl hu
      · exact ih' c hc
    · simp only [hu, Bool.false_eq_true, if_false, List.mem_cons] at hc
      have hd : ∀ n, n < 16 → (48 ≤ hexDigit n ∧ hexDigit n ≤ 57) ∨ (65 ≤ hexDigit n ∧ hexDigit n ≤ 70) := by
        intro n hn; unfold hexDigit; split <;> omega
      rcases hc with rfl | rfl | rfl | hc
      · exact Or.inr (Or.inl rfl)
      · exact Or.inr (Or.inr (hd _ (by omega)))
      · exact Or.inr (Or.inr (hd _ (Nat.mod_lt _ (by omega))))
      · exact ih' c hc

/-! ### non-vacuity -/
example : quote [117, 32, 43, 64, 58, 47, 37, 195, 169] = [117, 37, 50, 48, 37, 50, 66, 37, 52, 48, 37, 51, 65, 37, 50, 70, 37, 50, 53, 37, 67, 51, 37, 65, 57] := by decide
example : unquote (quote [117, 32, 43, 64, 58, 47, 37, 195, 169]) = [117, 32, 43, 64, 58, 47, 37, 195, 169] := by decide
example : (classify .legacy (.response 404 (some 2) none)).missing = true ∧ (classify .legacy (.response 503 none none)).error = true := by decide
example : transportFor true { noCheck := false, caBundle := "ca.pem", certificate := "c.pem", privateKey := "k.pem", proxy := ⟨true, "p:3128", ""⟩, http2Disable := true } "http"
    = { verify := .bundle "ca.pem", cert := some (.pair "c.pem" "k.pem"), proxy := some "p:3128", http2 := false } := by decide

end Http
end AptMirror
