import Lean
import AptMirror
/-
  Prints, for every theorem declared in a module `AptMirror.Props.*`, the axioms it depends on.
  Output lines:  AUDIT <module> <theorem> [axiom, ...]
-/
open Lean Elab Command

run_cmd do
  let env ← getEnv
  let mods := env.header.moduleNames
  let mut rows : Array (String × String × List Name) := #[]
  for (n, ci) in env.constants.map₁.toList do
    match ci with
    | .thmInfo _ =>
      match env.getModuleIdxFor? n with
      | some idx =>
        let m := mods[idx.toNat]!
        if (`AptMirror.Props).isPrefixOf m && !n.isInternal then
          let axs ← Lean.collectAxioms n
          rows := rows.push (m.toString, n.toString, axs.toList)
      | none => pure ()
    | _ => pure ()
  let sorted := rows.qsort (fun a b => a.2.1 < b.2.1)
  for (m, n, axs) in sorted do
    IO.println s!"AUDIT {m} {n} {axs}"
