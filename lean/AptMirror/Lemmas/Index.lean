import AptMirror.Model.Index
/-!
Field-level semantics of a Packages index and the proof that the line machine of `PackagesParser._do_parse_index` computes it:
rendering of fields into lines (continuation lines, optional missing final newline), blank separators, final flush.
-/
namespace AptMirror
namespace Index
open Str Cfg

/-! ### whitespace stripping -/
theorem dropWhile_all {p : Char → Bool} (a r : S) (h : a.all p = true) : (a ++ r).dropWhile p = r.dropWhile p := by
  induction a with
  | nil => rfl
  | cons c cs ih =>
    simp only [List.all_cons, Bool.and_eq_true] at h
    simp only [List.cons_append, List.dropWhile_cons, h.1, if_true]
    exact ih h.2

theorem dropWhile_head {p : Char → Bool} (c : Char) (r : S) (h : p c = false) : (c :: r).dropWhile p = c :: r := by
  simp [List.dropWhile_cons, h]

/-- a text with no blank at either end -/
structure Clean (s : S) : Prop where
  head : ∃ c r, s = c :: r ∧ isWs c = false
  last : ∃ r c, s = r ++ [c] ∧ isWs c = false

theorem strip_pad (a s b : S) (ha : a.all isWs = true) (hb : b.all isWs = true) (hs : Clean s) : strip (a ++ s ++ b) = s := by
  obtain ⟨c, r, hcr, hc⟩ := hs.head
  obtain ⟨r', c', hcr', hc'⟩ := hs.last
  unfold strip lstrip
  rw [List.append_assoc, dropWhile_all a _ ha]
  have h1 : (s ++ b).dropWhile isWs = s ++ b := by rw [hcr]; exact dropWhile_head c _ hc
  rw [h1, List.reverse_append]
  have hb' : b.reverse.all isWs = true := by simpa using hb
  rw [dropWhile_all _ _ hb']
  have h2 : s.reverse.dropWhile isWs = s.reverse := by
    rw [hcr']; simp only [List.reverse_append, List.reverse_cons, List.reverse_nil, List.nil_append, List.cons_append]
    exact dropWhile_head c' _ hc'
  rw [h2, List.reverse_reverse]

theorem dropWhile_ne_colon (name rest : S) (h : ':' ∉ name) : (name ++ ':' :: rest).dropWhile (· ≠ ':') = ':' :: rest := by
  induction name with
  | nil => simp [List.dropWhile_cons]
  | cons c cs ih =>
    have hc : c ≠ ':' := fun e => h (by rw [e]; exact List.mem_cons_self)
    simp only [List.cons_append, List.dropWhile_cons, ne_eq, hc, not_false_eq_true, decide_true, if_true]
    exact ih (fun hm => h (List.mem_cons_of_mem _ hm))

/-- end of a line: `"\n"` or nothing (last line of a file without final newline) -/
def IsEol (nl : S) : Prop := nl = ['\n'] ∨ nl = []

theorem IsEol.all {nl : S} (h : IsEol nl) : nl.all isWs = true := by
  rcases h with rfl | rfl <;> decide

/-- a field name as it occurs in control files: not empty, no colon, does not start with a blank or a newline -/
structure NameOK (name : S) : Prop where
  nocolon : ':' ∉ name
  head : ∃ c r, name = c :: r ∧ isWs c = false

/-- the value the parser reads from the line `name: value<eol>` is `value` -/
theorem lineValue_render (name value nl : S) (hn : NameOK name) (hv : Clean value) (hnl : IsEol nl) :
    lineValue (name ++ ':' :: ' ' :: value ++ nl) = some value := by
  unfold lineValue
  obtain ⟨c, r, hcr, hc⟩ := hn.head
  obtain ⟨r', c', hcr', hc'⟩ := hv.last
  have hclean : Clean (name ++ ':' :: ' ' :: value) := by
    refine ⟨⟨c, r ++ ':' :: ' ' :: value, by rw [hcr]; simp, hc⟩, ⟨name ++ ':' :: ' ' :: r', c', by rw [hcr']; simp, hc'⟩⟩
  have h1 : strip (name ++ ':' :: ' ' :: value ++ nl) = name ++ ':' :: ' ' :: value := by
    have := strip_pad [] (name ++ ':' :: ' ' :: value) nl (by rfl) hnl.all hclean
    simpa [List.append_assoc] using this
  simp only [h1, dropWhile_ne_colon name _ hn.nocolon]
  have := strip_pad [' '] value [] (by decide) (by rfl) hv
  simpa using this


/-! ### fields and their rendering -/

/-- one field of a stanza: `name:rest<eol>` followed by continuation lines ` text<eol>` -/
structure Field where
  name : S
  rest : S
  eol : S := ['\n']
  cont : List (S × S) := []

def Field.first (f : Field) : S := f.name ++ ':' :: f.rest ++ f.eol
def contLine (c : S × S) : S := ' ' :: c.1 ++ c.2
def Field.lines (f : Field) : List S := f.first :: f.cont.map contLine

def kPackage : S := "Package".toList
def kSource : S := "Source".toList
def kFilename : S := "Filename".toList
def kSize : S := "Size".toList
def hashNames : List S := ["MD5Sum".toList, "SHA1".toList, "SHA256".toList, "SHA512".toList]

/-- the field is one the parser reads a value from -/
def Field.valued (f : Field) : Prop := f.name = kPackage ∨ f.name = kSource ∨ f.name = kFilename ∨ f.name = kSize

/-- well-formed field: a proper name, line ends that are line ends, and for the fields whose value is read the canonical
    rendering `Name: value` with a value that has no blank at either end -/
structure Field.OK (f : Field) : Prop where
  name : NameOK f.name
  eol : IsEol f.eol
  value : f.valued → ∃ v, f.rest = ' ' :: v ∧ Clean v

/-- **field-level semantics** of one Packages field (what the format says the field means to the mirror) -/
def specField (s : PState) (f : Field) : Except Err PState :=
  let v := f.rest.drop 1
  if f.name = kPackage then pure { s with package := some v }
  else if f.name = kSource then
    match Cfg.splitWs v with
    | w :: _ => pure { s with source := some w }
    | [] => throw .indexError
  else if f.name = kFilename then
    let p := pathParts v
    if lexSafe p then pure { s with filePath := some p } else pure s
  else if f.name = kSize then
    match parseInt v with
    | some n => pure { s with size := n }
    | none => throw .valueError
  else if f.name ∈ hashNames then pure { s with hasHash := true }
  else pure s

theorem startsWith_key (f : Field) (key : S) (hk : ':' ∉ key) (hn : ':' ∉ f.name) :
    startsWith f.first (key ++ [':']) = true ↔ f.name = key := by
  unfold Field.first startsWith
  rw [show f.name ++ ':' :: f.rest ++ f.eol = f.name ++ ':' :: (f.rest ++ f.eol) by simp]
  constructor
  · intro h
    induction key generalizing f with
    | nil =>
      cases hnm : f.name with
      | nil => rfl
      | cons c cs =>
        rw [hnm] at h
        simp only [List.nil_append, List.cons_append, List.isPrefixOf, Bool.and_eq_true, beq_iff_eq] at h
        exact absurd (by rw [hnm, ← h.1]; exact List.mem_cons_self) hn
    | cons k ks ih =>
      cases hnm : f.name with
      | nil =>
        rw [hnm] at h
        simp only [List.nil_append, List.cons_append, List.isPrefixOf, Bool.and_eq_true, beq_iff_eq] at h
        exact absurd (by rw [h.1]; exact List.mem_cons_self) hk
      | cons c cs =>
        rw [hnm] at h
        simp only [List.cons_append, List.isPrefixOf, Bool.and_eq_true, beq_iff_eq] at h
        have := ih { f with name := cs } (fun hm => hk (List.mem_cons_of_mem _ hm))
          (by simp only; intro hm; exact hn (by rw [hnm]; exact List.mem_cons_of_mem _ hm)) h.2
        simp only at this
        rw [h.1, this]
  · intro h
    rw [h]
    have : ∀ (a r : S), (a ++ [':']).isPrefixOf (a ++ ':' :: r) = true := by
      intro a r; induction a with
      | nil => simp [List.isPrefixOf]
      | cons c cs ih => simp [List.isPrefixOf, ih]
    exact this key _


theorem first_head (f : Field) (h : NameOK f.name) : f.first.head? ≠ some '\n' := by
  obtain ⟨c, r, hcr, hc⟩ := h.head
  unfold Field.first
  rw [hcr]
  simp only [List.cons_append, List.head?_cons, ne_eq, Option.some.injEq]
  intro e; rw [e] at hc; revert hc; decide

def withPool (pool : List PoolFile) : Except Err PState → Except Err (PState × List PoolFile)
  | .ok s => .ok (s, pool)
  | .error e => .error e

theorem sw_false (f : Field) (key : S) (hk : ':' ∉ key) (hn : ':' ∉ f.name) (hne : f.name ≠ key) :
    startsWith f.first (key ++ [':']) = false := by
  cases h : startsWith f.first (key ++ [':']) with
  | false => rfl
  | true => exact absurd ((startsWith_key f key hk hn).mp h) hne

theorem hash_any (f : Field) (hn : ':' ∉ f.name) : hashPrefixes.any (startsWith f.first) = decide (f.name ∈ hashNames) := by
  have e : hashPrefixes = hashNames.map (· ++ [':']) := by decide
  rw [e]
  by_cases hm : f.name ∈ hashNames
  · simp only [hm, decide_true, List.any_map, List.any_eq_true, Function.comp]
    exact ⟨f.name, hm, (startsWith_key f f.name hn hn).mpr rfl⟩
  · simp only [hm, decide_false, List.any_map, List.any_eq_false, Function.comp]
    intro k hk hsw
    have hkc : ':' ∉ k := by
      simp only [hashNames, List.mem_cons, List.not_mem_nil, or_false] at hk
      rcases hk with rfl | rfl | rfl | rfl <;> decide
    exact hm (by rw [(startsWith_key f k hkc hn).mp hsw]; exact hk)

/-- **one rendered field line is read as the field means** -/
theorem packagesLine_first (flt : Filter) (ign : List Path) (s : PState) (pool : List PoolFile) (f : Field) (hf : f.OK) :
    packagesLine flt ign (s, pool) f.first = withPool pool (specField s f) := by
  have hn := hf.name.nocolon
  have hhead := first_head f hf.name
  have kp : "Package:".toList = kPackage ++ [':'] := by decide
  have ks : "Source:".toList = kSource ++ [':'] := by decide
  have kf : "Filename:".toList = kFilename ++ [':'] := by decide
  have kz : "Size:".toList = kSize ++ [':'] := by decide
  have cp : ':' ∉ kPackage := by decide
  have cs : ':' ∉ kSource := by decide
  have cf : ':' ∉ kFilename := by decide
  have cz : ':' ∉ kSize := by decide
  have n1 : kSource ≠ kPackage := by decide
  have n2 : kFilename ≠ kPackage := by decide
  have n3 : kFilename ≠ kSource := by decide
  have n4 : kSize ≠ kPackage := by decide
  have n5 : kSize ≠ kSource := by decide
  have n6 : kSize ≠ kFilename := by decide
  have hval : f.valued → lineValue f.first = some (f.rest.drop 1) := by
    intro hv
    obtain ⟨v, hr, hc⟩ := hf.value hv
    unfold Field.first
    rw [hr]
    simp only [List.drop_succ_cons, List.drop_zero]
    have := lineValue_render f.name v f.eol hf.name hc hf.eol
    simpa [List.append_assoc] using this
  unfold packagesLine specField
  simp only [hhead, ne_eq, not_false_eq_true, if_true, kp, ks, kf, kz]
  by_cases h1 : f.name = kPackage
  · rw [(startsWith_key f kPackage cp hn).mpr h1, hval (Or.inl h1)]
    simp [h1, withPool, pure, Except.pure]
  · rw [sw_false f kPackage cp hn h1]
    by_cases h2 : f.name = kSource
    · rw [(startsWith_key f kSource cs hn).mpr h2, hval (Or.inr (Or.inl h2))]
      simp only [h2, n1, if_false, if_true, Bool.false_eq_true]
      cases Cfg.splitWs (f.rest.drop 1) <;> simp [withPool, pure, Except.pure, throw, throwThe, MonadExceptOf.throw]
    · rw [sw_false f kSource cs hn h2]
      by_cases h3 : f.name = kFilename
      · rw [(startsWith_key f kFilename cf hn).mpr h3, hval (Or.inr (Or.inr (Or.inl h3)))]
        simp only [h3, n2, n3, if_false, if_true, Bool.false_eq_true]
        split <;> simp [withPool, pure, Except.pure]
      · rw [sw_false f kFilename cf hn h3]
        by_cases h4 : f.name = kSize
        · rw [(startsWith_key f kSize cz hn).mpr h4, hval (Or.inr (Or.inr (Or.inr h4)))]
          simp only [h4, n4, n5, n6, if_false, if_true, Bool.false_eq_true]
          cases parseInt (f.rest.drop 1) <;> simp [withPool, pure, Except.pure, throw, throwThe, MonadExceptOf.throw]
        · rw [sw_false f kSize cz hn h4, hash_any f hn]
          simp only [h1, h2, h3, h4, if_false, Bool.false_eq_true]
          by_cases h5 : f.name ∈ hashNames <;> simp [h5, withPool, pure, Except.pure]


theorem sw_blank (r key : S) (c : Char) (h : key.head? = some c) (hc : c ≠ ' ') : startsWith (' ' :: r) key = false := by
  cases key with
  | nil => cases h
  | cons k ks =>
    simp only [List.head?_cons, Option.some.injEq] at h
    subst h
    simp only [startsWith, List.isPrefixOf, Bool.and_eq_false_iff, beq_eq_false_iff_ne, ne_eq]
    exact Or.inl hc

/-- a line that starts with a blank changes nothing -/
theorem packagesLine_blankstart (flt : Filter) (ign : List Path) (s : PState) (pool : List PoolFile) (l : S) :
    packagesLine flt ign (s, pool) (' ' :: l) = .ok (s, pool) := by
  have h0 : (' ' :: l).head? ≠ some '\n' := by simp
  have hp : startsWith (' ' :: l) "Package:".toList = false := sw_blank _ _ 'P' rfl (by decide)
  have hs : startsWith (' ' :: l) "Source:".toList = false := sw_blank _ _ 'S' rfl (by decide)
  have hf : startsWith (' ' :: l) "Filename:".toList = false := sw_blank _ _ 'F' rfl (by decide)
  have hz : startsWith (' ' :: l) "Size:".toList = false := sw_blank _ _ 'S' rfl (by decide)
  have h1 : startsWith (' ' :: l) "MD5Sum:".toList = false := sw_blank _ _ 'M' rfl (by decide)
  have h2 : startsWith (' ' :: l) "SHA1:".toList = false := sw_blank _ _ 'S' rfl (by decide)
  have h3 : startsWith (' ' :: l) "SHA256:".toList = false := sw_blank _ _ 'S' rfl (by decide)
  have h4 : startsWith (' ' :: l) "SHA512:".toList = false := sw_blank _ _ 'S' rfl (by decide)
  have hh : hashPrefixes.any (startsWith (' ' :: l)) = false := by
    simp only [hashPrefixes, List.any_cons, List.any_nil, h1, h2, h3, h4, Bool.or_false]
  unfold packagesLine
  simp only [h0, ne_eq, not_false_eq_true, if_true, hp, hs, hf, hz, hh, Bool.false_eq_true, if_false, pure, Except.pure]

theorem packagesLine_cont (flt : Filter) (ign : List Path) (s : PState) (pool : List PoolFile) (c : S × S) :
    packagesLine flt ign (s, pool) (contLine c) = .ok (s, pool) := by
  unfold contLine
  rw [List.cons_append]
  exact packagesLine_blankstart flt ign s pool _

theorem foldlM_cont (flt : Filter) (ign : List Path) (cs : List (S × S)) (s : PState) (pool : List PoolFile) :
    (cs.map contLine).foldlM (packagesLine flt ign) (s, pool) = .ok (s, pool) := by
  induction cs with
  | nil => rfl
  | cons c cs ih =>
    simp only [List.map_cons, List.foldlM_cons, packagesLine_cont, bind, Except.bind]
    exact ih

/-- field-level semantics of the fields of one stanza, read in order from state `s` -/
def specFields (s : PState) (fs : List Field) : Except Err PState := fs.foldlM specField s

theorem packages_fields (flt : Filter) (ign : List Path) (fs : List Field) (hok : ∀ f ∈ fs, f.OK) (s : PState) (pool : List PoolFile) :
    (fs.flatMap Field.lines).foldlM (packagesLine flt ign) (s, pool) = withPool pool (specFields s fs) := by
  induction fs generalizing s with
  | nil => rfl
  | cons f fs ih =>
    have hf := hok f List.mem_cons_self
    simp only [List.flatMap_cons, Field.lines, List.cons_append, List.foldlM_cons, List.foldlM_append, specFields]
    rw [packagesLine_first flt ign s pool f hf]
    cases hsf : specField s f with
    | error e => simp [withPool, bind, Except.bind]
    | ok s' =>
      simp only [withPool, bind, Except.bind, foldlM_cont]
      exact ih (fun g hg => hok g (List.mem_cons_of_mem _ hg)) s'

/-- what the end of a stanza does with the fields read so far: at most one pool file -/
def flush (flt : Filter) (ign : List Path) (s : PState) (pool : List PoolFile) : List PoolFile :=
  match s.package, s.filePath with
  | some pkg, some fp =>
    if pkg.isEmpty || s.size = 0 then pool
    else if !flt.allowed (s.srcName pkg) (some pkg) then pool
    else putPool pool { path := fp, size := s.size, ignoreErrors := shouldIgnore ign fp }
  | _, _ => pool

theorem packagesLine_blank (flt : Filter) (ign : List Path) (s : PState) (pool : List PoolFile) :
    packagesLine flt ign (s, pool) ['\n'] = .ok ({}, flush flt ign s pool) := by
  unfold packagesLine flush
  simp only [List.head?_cons, ne_eq, not_true_eq_false, if_false]
  cases s.package with
  | none => simp [pure, Except.pure]
  | some pkg =>
    cases s.filePath with
    | none => simp [pure, Except.pure]
    | some fp =>
      simp only
      split
      · simp [pure, Except.pure]
      · split <;> simp [pure, Except.pure]

theorem flush_empty (flt : Filter) (ign : List Path) (pool : List PoolFile) : flush flt ign {} pool = pool := rfl

theorem foldlM_blanks (flt : Filter) (ign : List Path) (k : Nat) (pool : List PoolFile) :
    (List.replicate k ['\n']).foldlM (packagesLine flt ign) ({}, pool) = .ok ({}, pool) := by
  induction k with
  | zero => rfl
  | succ k ih =>
    simp only [List.replicate_succ, List.foldlM_cons, packagesLine_blank, flush_empty, bind, Except.bind]
    exact ih

/-- a stanza: its fields, followed by `blanks` empty lines -/
structure Stanza where
  fields : List Field
  blanks : Nat

def Stanza.lines (st : Stanza) : List S := st.fields.flatMap Field.lines ++ List.replicate st.blanks ['\n']

/-- **stanza-level specification of a Packages index**: each stanza is read on its own (from the empty state) and contributes
    at most one pool file -/
def specIndex (flt : Filter) (ign : List Path) (sts : List Stanza) (pool : List PoolFile) : Except Err (List PoolFile) :=
  sts.foldlM (fun pool st => do let s ← specFields {} st.fields; pure (flush flt ign s pool)) pool

theorem packages_stanzas (flt : Filter) (ign : List Path) (sts : List Stanza) (hb : ∀ st ∈ sts, 1 ≤ st.blanks)
    (hok : ∀ st ∈ sts, ∀ f ∈ st.fields, f.OK) (pool : List PoolFile) :
    (sts.flatMap Stanza.lines).foldlM (packagesLine flt ign) ({}, pool) =
      (match specIndex flt ign sts pool with | .ok p => .ok ({}, p) | .error e => .error e) := by
  induction sts generalizing pool with
  | nil => rfl
  | cons st sts ih =>
    obtain ⟨k, hk⟩ : ∃ k, st.blanks = k + 1 := ⟨st.blanks - 1, by have := hb st List.mem_cons_self; omega⟩
    simp only [List.flatMap_cons, Stanza.lines, hk, List.replicate_succ, List.foldlM_append, List.foldlM_cons, specIndex]
    rw [packages_fields flt ign st.fields (hok st List.mem_cons_self) {} pool]
    cases hs : specFields {} st.fields with
    | error e => simp [withPool, bind, Except.bind]
    | ok s =>
      simp only [withPool, bind, Except.bind, packagesLine_blank, foldlM_blanks, pure, Except.pure]
      exact ih (fun x hx => hb x (List.mem_cons_of_mem _ hx)) (fun x hx => hok x (List.mem_cons_of_mem _ hx)) _


/-! ### what a stanza's `Package` is: the value of its (last) `Package` field -/
def lastField (key : S) (fs : List Field) : Option Field := (fs.filter (fun f => f.name = key)).getLast?

theorem specField_package (s s1 : PState) (f : Field) (h : specField s f = .ok s1) :
    s1.package = if f.name = kPackage then some (f.rest.drop 1) else s.package := by
  unfold specField at h
  by_cases h1 : f.name = kPackage
  · simp only [h1, if_true, pure, Except.pure, Except.ok.injEq] at h
    rw [← h]; simp [h1]
  · simp only [h1, if_false] at h ⊢
    split at h
    · split at h
      · simp only [pure, Except.pure, Except.ok.injEq] at h; rw [← h]
      · cases h
    · split at h
      · split at h <;> (simp only [pure, Except.pure, Except.ok.injEq] at h; rw [← h])
      · split at h
        · split at h
          · simp only [pure, Except.pure, Except.ok.injEq] at h; rw [← h]
          · cases h
        · split at h <;> (simp only [pure, Except.pure, Except.ok.injEq] at h; rw [← h])

theorem specFields_cons (s : PState) (f : Field) (fs : List Field) (s' : PState) (h : specFields s (f :: fs) = .ok s') :
    ∃ s1, specField s f = .ok s1 ∧ specFields s1 fs = .ok s' := by
  unfold specFields at h
  simp only [List.foldlM_cons, bind, Except.bind] at h
  cases hs : specField s f with
  | error e => rw [hs] at h; cases h
  | ok s1 => rw [hs] at h; exact ⟨s1, rfl, h⟩

/-- the `package` read from a stanza is the value of its last `Package` field (its only one in a well-formed stanza), or
    what it was before if the stanza has none -/
theorem specFields_package (fs : List Field) (s s' : PState) (h : specFields s fs = .ok s') :
    s'.package = match lastField kPackage fs with
      | some f => some (f.rest.drop 1)
      | none => s.package := by
  induction fs generalizing s with
  | nil =>
    simp only [specFields, List.foldlM_nil, pure, Except.pure, Except.ok.injEq] at h
    rw [← h]; rfl
  | cons f fs ih =>
    obtain ⟨s1, h1, h2⟩ := specFields_cons s f fs s' h
    have hi := ih s1 h2
    have hp := specField_package s s1 f h1
    unfold lastField at hi ⊢
    by_cases hn : f.name = kPackage
    · simp only [List.filter_cons, hn, decide_true, if_true]
      cases hf : (fs.filter (fun f => decide (f.name = kPackage))) with
      | nil =>
        rw [hf] at hi
        simp only [List.getLast?_nil] at hi
        simp only [List.getLast?_singleton]
        rw [hi, hp]; simp [hn]
      | cons g gs =>
        rw [hf] at hi
        rw [List.getLast?_cons_cons]
        exact hi
    · simp only [List.filter_cons, hn, decide_false, Bool.false_eq_true, if_false]
      rw [hi]
      cases (fs.filter (fun f => decide (f.name = kPackage))).getLast? with
      | some g => rfl
      | none => simp only; rw [hp]; simp [hn]

end Index
end AptMirror
