import AptMirror.Model.Index
/-!
Field-level semantics of a Packages index and the proof that the line machine of `PackagesParser._do_parse_index` computes it:
rendering of fields into lines (continuation lines, optional missing final newline), blank separators, final flush.
-/
namespace AptMirror
namespace Index
open Str Cfg

/-! ### whitespace stripping -/
theorem dropWhile_all {p : Char → Bool} (a r : S) (h : a.all p = true) : (a ++ r).dropWhile p = r.dropWhile p := by
  induction a with
  | nil => rfl
  | cons c cs ih =>
    simp only [List.all_cons, Bool.and_eq_true] at h
    simp only [List.cons_append, List.dropWhile_cons, h.1, if_true]
    exact ih h.2

theorem dropWhile_head {p : Char → Bool} (c : Char) (r : S) (h : p c = false) : (c :: r).dropWhile p = c :: r := by
  simp [List.dropWhile_cons, h]

/-- a text with no blank at either end -/
structure Clean (s : S) : Prop where
  head : ∃ c r, s = c :: r ∧ isWs c = false
  last : ∃ r c, s = r ++ [c] ∧ isWs c = false

theorem strip_pad (a s b : S) (ha : a.all isWs = true) (hb : b.all isWs = true) (hs : Clean s) : strip (a ++ s ++ b) = s := by
  obtain ⟨c, r, hcr, hc⟩ := hs.head
  obtain ⟨r', c', hcr', hc'⟩ := hs.last
  unfold strip lstrip
  rw [List.append_assoc, dropWhile_all a _ ha]
  have h1 : (s ++ b).dropWhile isWs = s ++ b := by rw [hcr]; exact dropWhile_head c _ hc
  rw [h1, List.reverse_append]
  have hb' : b.reverse.all isWs = true := by simpa using hb
  rw [dropWhile_all _ _ hb']
  have h2 : s.reverse.dropWhile isWs = s.reverse := by
    rw [hcr']; simp only [List.reverse_append, List.reverse_cons, List.reverse_nil, List.nil_append, List.cons_append]
    exact dropWhile_head c' _ hc'
  rw [h2, List.reverse_reverse]

theorem dropWhile_ne_colon (name rest : S) (h : ':' ∉ name) : (name ++ ':' :: rest).dropWhile (· ≠ ':') = ':' :: rest := by
  induction name with
  | nil => simp [List.dropWhile_cons]
  | cons c cs ih =>
    have hc : c ≠ ':' := fun e => h (by rw [e]; exact List.mem_cons_self)
    simp only [List.cons_append, List.dropWhile_cons, ne_eq, hc, not_false_eq_true, decide_true, if_true]
    exact ih (fun hm => h (List.mem_cons_of_mem _ hm))

/-- end of a line: `"\n"` or nothing (last line of a file without final newline) -/
def IsEol (nl : S) : Prop := nl = ['\n'] ∨ nl = []

theorem IsEol.all {nl : S} (h : IsEol nl) : nl.all isWs = true := by
  rcases h with rfl | rfl <;> decide

/-- a field name as it occurs in control files: not empty, no colon, does not start with a blank or a newline -/
structure NameOK (name : S) : Prop where
  nocolon : ':' ∉ name
  head : ∃ c r, name = c :: r ∧ isWs c = false

/-- the value the parser reads from the line `name: value<eol>` is `value` -/
theorem lineValue_render (name value nl : S) (hn : NameOK name) (hv : Clean value) (hnl : IsEol nl) :
    lineValue (name ++ ':' :: ' ' :: value ++ nl) = some value := by
  unfold lineValue
  obtain ⟨c, r, hcr, hc⟩ := hn.head
  obtain ⟨r', c', hcr', hc'⟩ := hv.last
  have hclean : Clean (name ++ ':' :: ' ' :: value) := by
    refine ⟨⟨c, r ++ ':' :: ' ' :: value, by rw [hcr]; simp, hc⟩, ⟨name ++ ':' :: ' ' :: r', c', by rw [hcr']; simp, hc'⟩⟩
  have h1 : strip (name ++ ':' :: ' ' :: value ++ nl) = name ++ ':' :: ' ' :: value := by
    have := strip_pad [] (name ++ ':' :: ' ' :: value) nl (by rfl) hnl.all hclean
    simpa [List.append_assoc] using this
  simp only [h1, dropWhile_ne_colon name _ hn.nocolon]
  have := strip_pad [' '] value [] (by decide) (by rfl) hv
  simpa using this

end Index
end AptMirror
