import AptMirror.Lemmas.Download
namespace AptMirror

def FS.WF (fs : FS) : Prop := ∀ p i, fs.ino p = some i → i < fs.next

/-- `fs'` differs from `fs` only at the names in `T` and at inodes allocated after `fs` -/
structure Frame (T : List Path) (fs fs' : FS) : Prop where
  ino : ∀ q, q ∉ T → fs'.ino q = fs.ino q
  dat : ∀ i, i < fs.next → fs'.dat i = fs.dat i
  next : fs.next ≤ fs'.next
  wf : fs.WF → fs'.WF

theorem Frame.refl (T : List Path) (fs : FS) : Frame T fs fs := ⟨fun _ _ => rfl, fun _ _ => rfl, Nat.le_refl _, id⟩

theorem Frame.trans {T : List Path} {a b c : FS} (h1 : Frame T a b) (h2 : Frame T b c) : Frame T a c :=
  ⟨fun q hq => (h2.ino q hq).trans (h1.ino q hq),
   fun i hi => (h2.dat i (Nat.lt_of_lt_of_le hi h1.next)).trans (h1.dat i hi),
   Nat.le_trans h1.next h2.next, fun h => h2.wf (h1.wf h)⟩

theorem Frame.mono {T T' : List Path} {a b : FS} (h : Frame T a b) (hs : ∀ q, q ∈ T → q ∈ T') : Frame T' a b :=
  ⟨fun q hq => h.ino q (fun hm => hq (hs q hm)), h.dat, h.next, h.wf⟩

theorem Frame.sizeAt {T : List Path} {a b : FS} (h : Frame T a b) (hwf : a.WF) (q : Path) (hq : q ∉ T) :
    b.sizeAt q = a.sizeAt q := by
  unfold FS.sizeAt
  rw [h.ino q hq]
  cases hi : a.ino q with
  | none => rfl
  | some i => simp [h.dat i (hwf q i hi)]

theorem frame_linkOrCopy (fs : FS) (src : Path) (ts : List Path)  : Frame ts fs (linkOrCopy fs src ts) := by
  refine ⟨fun q hq => linkOrCopy_frame fs src ts q hq, fun i _ => by rw [linkOrCopy_dat], by rw [linkOrCopy_next]; exact Nat.le_refl _, ?_⟩
  intro hwf p i hp
  rw [linkOrCopy_next]
  by_cases hm : p ∈ ts
  · rw [linkOrCopy_mem fs src ts p hm] at hp; exact hwf _ _ hp
  · rw [linkOrCopy_frame fs src ts p hm] at hp; exact hwf _ _ hp

theorem frame_rewrite (fs : FS) (p : Path) (n tag : Nat) : Frame [p] fs (fs.rewrite p n tag) := by
  refine ⟨?_, ?_, ?_, ?_⟩
  · intro q hq; exact FS.rewrite_ino_other fs p q n tag (by simpa using hq)
  · intro i hi; exact FS.rewrite_dat_old fs p n tag i (Nat.ne_of_lt hi)
  · rw [FS.rewrite_next]; omega
  · intro hwf q i hq
    rw [FS.rewrite_next]
    by_cases h : q = p
    · subst h; rw [FS.rewrite_ino_self] at hq; cases hq; omega
    · rw [FS.rewrite_ino_other fs p q n tag h] at hq
      have := hwf _ _ hq; omega

theorem frame_utimeOpt_fresh (fs : FS) (p : Path) (d : Option Int) (i : Nat) (hi : fs.ino p = some i) (k : Nat)
    (hk : k ≤ i) :
    (∀ q, (utimeOpt fs p d).ino q = fs.ino q) ∧ (∀ j, j < k → (utimeOpt fs p d).dat j = fs.dat j) ∧
    (utimeOpt fs p d).next = fs.next := by
  cases d with
  | none => simp [utimeOpt]
  | some t =>
    simp only [utimeOpt]
    refine ⟨fun q => by rw [FS.utime_ino], ?_, FS.utime_next _ _ _⟩
    intro j hj
    unfold FS.utime
    rw [hi]
    simp only
    have : j ≠ i := by omega
    simp [this]


theorem frame_rewrite_utime (fs : FS) (p : Path) (n tag : Nat) (d : Option Int) :
    Frame [p] fs (utimeOpt (fs.rewrite p n tag) p d) := by
  have hr := frame_rewrite fs p n tag
  have hi := FS.rewrite_ino_self fs p n tag
  obtain ⟨h1, h2, h3⟩ := frame_utimeOpt_fresh (fs.rewrite p n tag) p d fs.next hi fs.next (Nat.le_refl _)
  refine ⟨?_, ?_, ?_, ?_⟩
  · intro q hq; rw [h1]; exact hr.ino q hq
  · intro i hi'; rw [h2 i hi']; exact hr.dat i hi'
  · rw [h3]; exact hr.next
  · intro hwf q i hq
    rw [h3]; rw [h1] at hq; exact hr.wf hwf q i hq

/-- names a (variant, alias URL) attempt may touch -/
def attemptTargets (root : Path) (v : Variant) (src : Path) : List Path := (root ++ src) :: v.allPaths.map (root ++ ·)

theorem attempt_frame (root : Path) (f : DFile) (v : Variant) (src : Path) (s : DState) (err : Bool) :
    Frame (attemptTargets root v src) s.fs (attempt root f v src s err).state.fs := by
  unfold attempt
  have hfs := request_fs s src
  generalize s.request src = rs at hfs
  obtain ⟨r, s1⟩ := rs
  simp only at hfs
  rw [← hfs]
  cases r with
  | retry => exact Frame.refl _ _
  | missing => simp only; split <;> exact Frame.refl _ _
  | error => simp only; split <;> exact Frame.refl _ _
  | ok a d b ab t =>
    simp only
    split
    · split <;> exact Frame.refl _ _
    · split
      · exact (frame_linkOrCopy _ _ _).mono (fun q hq => List.mem_cons_of_mem _ hq)
      · split
        · exact (frame_rewrite _ _ _ _).mono (fun q hq => by simp at hq; subst hq; exact List.mem_cons_self)
        · split
          · exact (frame_rewrite _ _ _ _).mono (fun q hq => by simp at hq; subst hq; exact List.mem_cons_self)
          · refine Frame.trans ((frame_rewrite_utime s1.fs (root ++ src) b t d).mono
              (fun q hq => by simp at hq; subst hq; exact List.mem_cons_self)) ?_
            exact (frame_linkOrCopy _ _ _).mono (fun q hq => List.mem_cons_of_mem _ hq)

theorem tryLoop_frame (root : Path) (f : DFile) (v : Variant) (src : Path) (n : Nat) (s : DState) (err : Bool) :
    Frame (attemptTargets root v src) s.fs (tryLoop root f v src n s err).2.1.fs := by
  induction n generalizing s err with
  | zero => exact Frame.refl _ _
  | succ n ih =>
    unfold tryLoop
    have h := attempt_frame root f v src s err
    split
    · rename_i heq; rw [heq] at h; exact h
    · rename_i heq; rw [heq] at h; exact h
    · rename_i s' e' heq; rw [heq] at h; exact h.trans (ih s' e')

/-- all names a file's transfer may touch -/
def DFile.targets (root : Path) (f : DFile) : List Path := f.allPaths.map (root ++ ·)

theorem mem_iterVariants {f : DFile} {v : Variant} (h : v ∈ f.iterVariants) : v ∈ f.variants := by
  unfold DFile.iterVariants at h
  rw [List.mem_filterMap] at h
  obtain ⟨c, _, hc⟩ := h
  unfold DFile.variantOf at hc
  exact List.mem_of_find?_eq_some hc

theorem allPaths_subset {f : DFile} {v : Variant} (h : v ∈ f.variants) {p : Path} (hp : p ∈ v.allPaths) : p ∈ f.allPaths := by
  unfold DFile.allPaths
  exact List.mem_flatMap.mpr ⟨v, h, hp⟩

theorem tryAliases_frame (root : Path) (f : DFile) (v : Variant) (hv : v ∈ f.variants) (srcs : List Path)
    (hs : ∀ p ∈ srcs, p ∈ v.allPaths) (s : DState) (err : Bool) :
    Frame (f.targets root) s.fs (tryAliases root f v srcs s err).2.1.fs := by
  induction srcs generalizing s err with
  | nil => exact Frame.refl _ _
  | cons src rest ih =>
    unfold tryAliases
    have h := (tryLoop_frame root f v src 10 s err).mono (T' := f.targets root) (by
      intro q hq
      unfold attemptTargets at hq
      unfold DFile.targets
      rcases List.mem_cons.mp hq with h | h
      · subst h; exact mem_map_root (allPaths_subset hv (hs src List.mem_cons_self))
      · obtain ⟨p, hp, rfl⟩ := List.mem_map.mp h
        exact mem_map_root (allPaths_subset hv hp))
    split
    · rename_i heq; rw [heq] at h; exact h
    · rename_i s1 e1 heq; rw [heq] at h
      exact h.trans (ih (fun p hp => hs p (List.mem_cons_of_mem _ hp)) s1 e1)

theorem tryVariants_frame (root : Path) (f : DFile) (vs : List Variant) (hvs : ∀ v ∈ vs, v ∈ f.variants)
    (s : DState) (err : Bool) :
    Frame (f.targets root) s.fs (tryVariants root f vs s err).2.1.fs := by
  induction vs generalizing s err with
  | nil => exact Frame.refl _ _
  | cons v rest ih =>
    unfold tryVariants
    have h := tryAliases_frame root f v (hvs v List.mem_cons_self) v.allPaths (fun _ h => h) s err
    split
    · rename_i heq; rw [heq] at h; exact h
    · rename_i s1 e1 heq; rw [heq] at h
      exact h.trans (ih (fun w hw => hvs w (List.mem_cons_of_mem _ hw)) s1 e1)

theorem downloadFile_frame (root : Path) (f : DFile) (s : DState) :
    Frame (f.targets root) s.fs (downloadFile root f s).fs := by
  unfold downloadFile
  have h := tryVariants_frame root f f.iterVariants (fun v hv => mem_iterVariants hv) s false
  split
  · rename_i heq; rw [heq] at h; exact h
  · rename_i heq; rw [heq] at h
    repeat' split
    all_goals exact h

theorem downloadOne_frame (root : Path) (f : DFile) (s : DState) :
    Frame (f.targets root) s.fs (downloadOne root f s).fs := by
  unfold downloadOne
  split
  · exact Frame.refl _ _
  · exact downloadFile_frame root f s

end AptMirror
