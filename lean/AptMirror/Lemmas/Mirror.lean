import AptMirror.Model.Mirror
/-!
Lemmas about the L2 run model: effect of the write, pool, and clean phases; the invariants `WF` (enumeration covers every
bound name) and `K` (a file at a needed path holds — a prefix of — the body the upstream serves for that path).
-/
namespace AptMirror
namespace Mirror

/-- every bound pool name is enumerated -/
def WF (t : Tree) : Prop := ∀ p, t.pool p ≠ none → p ∈ t.dom

/-- queue well-formedness: one entry per path, and a fault-free transfer delivers exactly the declared size -/
structure NeedOK (need : Need) : Prop where
  distinct : need.pool.Pairwise (fun a b => a.path ≠ b.path)
  sums : ∀ n ∈ need.pool, n.chunks.sum = n.size

/-- S1 (pool paths are immutable): whatever is stored at a needed path consists of bytes of the body the upstream serves for
    that path (possibly only a prefix of it) -/
def K (need : Need) (t : Tree) : Prop := ∀ n ∈ need.pool, ∀ f, t.pool n.path = some f → f.tag = n.tag

theorem exec_append (a b : List Op) (t : Tree) : exec (a ++ b) t = exec b (exec a t) := by
  simp [exec, List.foldl_append]

theorem exec_nil (t : Tree) : exec [] t = t := rfl
theorem exec_cons (o : Op) (os : List Op) (t : Tree) : exec (o :: os) t = exec os (step t o) := rfl

/-! ### writing one file -/

theorem appends_effect (cs : List Nat) (p : Path) (t : Tree) (f : File) (h : t.pool p = some f) :
    (exec (cs.map (.append p)) t).pool p = some ⟨f.size + cs.sum, f.tag⟩ ∧
    (∀ q, q ≠ p → (exec (cs.map (.append p)) t).pool q = t.pool q) ∧
    (exec (cs.map (.append p)) t).dists = t.dists ∧ (exec (cs.map (.append p)) t).dom = t.dom := by
  induction cs generalizing t f with
  | nil => exact ⟨by simp [exec_nil, h], fun _ _ => rfl, rfl, rfl⟩
  | cons c cs ih =>
    simp only [List.map_cons, exec_cons]
    have h1 : (step t (.append p c)).pool p = some ⟨f.size + c, f.tag⟩ := by simp [step, h]
    obtain ⟨a, b, d, e⟩ := ih (step t (.append p c)) ⟨f.size + c, f.tag⟩ h1
    refine ⟨?_, ?_, ?_, ?_⟩
    · rw [a]; simp [List.sum_cons, Nat.add_assoc]
    · intro q hq; rw [b q hq]; simp [step, hq]
    · rw [d]; rfl
    · rw [e]; rfl

theorem write_effect (n : PoolNeed) (t : Tree) :
    (exec (writeOps n) t).pool n.path = some ⟨n.chunks.sum, n.tag⟩ ∧
    (∀ q, q ≠ n.path → (exec (writeOps n) t).pool q = t.pool q) ∧
    (exec (writeOps n) t).dists = t.dists ∧ (exec (writeOps n) t).dom = n.path :: t.dom := by
  unfold writeOps
  rw [exec_cons]
  have h1 : (step t (.create n.path n.tag)).pool n.path = some ⟨0, n.tag⟩ := by simp [step]
  obtain ⟨a, b, d, e⟩ := appends_effect n.chunks n.path (step t (.create n.path n.tag)) ⟨0, n.tag⟩ h1
  refine ⟨?_, ?_, ?_, ?_⟩
  · rw [a]; simp
  · intro q hq; rw [b q hq]; simp [step, hq]
  · rw [d]; rfl
  · rw [e]; rfl

theorem file_effect (n : PoolNeed) (t : Tree) (hs : n.chunks.sum = n.size) :
    (∃ f, (exec (fileOps t n) t).pool n.path = some f ∧ f.size = n.size ∧ (f.tag = n.tag ∨ t.pool n.path = some f)) ∧
    (∀ q, q ≠ n.path → (exec (fileOps t n) t).pool q = t.pool q) ∧
    (exec (fileOps t n) t).dists = t.dists ∧ (∀ q, q ∈ t.dom → q ∈ (exec (fileOps t n) t).dom) ∧
    (∀ q, q ∈ (exec (fileOps t n) t).dom → q ∈ t.dom ∨ q = n.path) := by
  unfold fileOps
  by_cases hp : present t n = true
  · rw [if_pos hp]
    unfold present at hp
    cases hf : t.pool n.path with
    | none => rw [hf] at hp; cases hp
    | some f =>
      rw [hf] at hp
      exact ⟨⟨f, hf, by simpa using hp, Or.inr rfl⟩, fun _ _ => rfl, rfl, fun _ h => h, fun _ h => Or.inl h⟩
  · rw [if_neg hp]
    obtain ⟨a, b, d, e⟩ := write_effect n t
    refine ⟨⟨⟨n.chunks.sum, n.tag⟩, a, hs, Or.inl rfl⟩, b, d, ?_, ?_⟩
    · intro q hq; rw [e]; exact List.mem_cons_of_mem _ hq
    · intro q hq; rw [e] at hq
      rcases List.mem_cons.mp hq with h | h
      · exact Or.inr h
      · exact Or.inl h

/-! ### the pool stage -/

theorem pool_effect (ns : List PoolNeed) (t : Tree) (hd : ns.Pairwise (fun a b => a.path ≠ b.path))
    (hs : ∀ n ∈ ns, n.chunks.sum = n.size) :
    (∀ n ∈ ns, ∃ f, (exec (poolOps t ns) t).pool n.path = some f ∧ f.size = n.size ∧ (f.tag = n.tag ∨ t.pool n.path = some f)) ∧
    (∀ q, (∀ n ∈ ns, n.path ≠ q) → (exec (poolOps t ns) t).pool q = t.pool q) ∧
    (exec (poolOps t ns) t).dists = t.dists ∧ (∀ q, q ∈ t.dom → q ∈ (exec (poolOps t ns) t).dom) := by
  induction ns generalizing t with
  | nil => exact ⟨fun _ h => (by cases h), fun _ _ => rfl, rfl, fun _ h => h⟩
  | cons n ns ih =>
    simp only [poolOps, exec_append]
    obtain ⟨⟨f, hf, hsz, htag⟩, hoth, hdi, hdom, _⟩ := file_effect n t (hs n List.mem_cons_self)
    have hd' := (List.pairwise_cons.mp hd)
    obtain ⟨ia, ib, ic, idm⟩ := ih (exec (fileOps t n) t) hd'.2 (fun m hm => hs m (List.mem_cons_of_mem _ hm))
    refine ⟨?_, ?_, ?_, ?_⟩
    · intro m hm
      rcases List.mem_cons.mp hm with rfl | hm
      · refine ⟨f, ?_, hsz, htag⟩
        rw [ib m.path (fun k hk => (hd'.1 k hk).symm)]
        exact hf
      · obtain ⟨g, hg, hgs, hgt⟩ := ia m hm
        refine ⟨g, hg, hgs, ?_⟩
        rcases hgt with h | h
        · exact Or.inl h
        · right
          rw [hoth m.path (fun e => hd'.1 m hm e.symm)] at h
          exact h
    · intro q hq
      rw [ib q (fun k hk => hq k (List.mem_cons_of_mem _ hk)), hoth q (fun e => hq n List.mem_cons_self e.symm)]
    · rw [ic, hdi]
    · intro q hq; exact idm q (hdom q hq)

theorem poolOps_mem (ns : List PoolNeed) (t : Tree) (op : Op) (h : op ∈ poolOps t ns) : ∃ n ∈ ns, op ∈ writeOps n := by
  induction ns generalizing t with
  | nil => cases h
  | cons n ns ih =>
    simp only [poolOps, List.mem_append] at h
    rcases h with h | h
    · unfold fileOps at h
      split at h
      · cases h
      · exact ⟨n, List.mem_cons_self, h⟩
    · obtain ⟨m, hm, ho⟩ := ih _ h
      exact ⟨m, List.mem_cons_of_mem _ hm, ho⟩

theorem poolOps_nil_of_present (ns : List PoolNeed) (t : Tree) (h : ∀ n ∈ ns, present t n = true) : poolOps t ns = [] := by
  induction ns with
  | nil => rfl
  | cons n ns ih =>
    have hn : fileOps t n = [] := by simp [fileOps, h n List.mem_cons_self]
    simp only [poolOps, hn, exec_nil, List.nil_append]
    exact ih (fun m hm => h m (List.mem_cons_of_mem _ hm))

/-! ### the cleaner -/

theorem removes_effect (ps : List Path) (t : Tree) :
    (∀ q, (exec (ps.map .remove) t).pool q = if q ∈ ps then none else t.pool q) ∧
    (exec (ps.map .remove) t).dists = t.dists ∧ (exec (ps.map .remove) t).dom = t.dom := by
  induction ps generalizing t with
  | nil => exact ⟨fun q => by simp [exec_nil], rfl, rfl⟩
  | cons p ps ih =>
    simp only [List.map_cons, exec_cons]
    obtain ⟨a, b, c⟩ := ih (step t (.remove p))
    refine ⟨?_, ?_, ?_⟩
    · intro q
      rw [a q]
      by_cases h1 : q ∈ ps
      · simp [h1]
      · by_cases h2 : q = p
        · simp [h2, step]
        · simp [h1, h2, step]
    · rw [b]; rfl
    · rw [c]; rfl

theorem clean_effect (t : Tree) (need : Need) (hw : WF t) :
    (∀ q, (exec (cleanOps t need) t).pool q = if keep need q then t.pool q else none) ∧
    (exec (cleanOps t need) t).dists = t.dists ∧ (exec (cleanOps t need) t).dom = t.dom := by
  unfold cleanOps
  obtain ⟨a, b, c⟩ := removes_effect (t.dom.eraseDups.filter fun p => (t.pool p).isSome && !keep need p) t
  refine ⟨?_, b, c⟩
  intro q
  rw [a q]
  by_cases hk : keep need q = true
  · simp [hk]
  · have hk' : keep need q = false := by simpa using hk
    simp only [hk', Bool.false_eq_true, if_false]
    cases hq : t.pool q with
    | none => simp
    | some f =>
      have hm : q ∈ t.dom := hw q (by rw [hq]; simp)
      simp [List.mem_filter, List.mem_eraseDups, hm, hq, hk']

/-! ### invariants along arbitrary operation sequences -/

theorem WF_step (t : Tree) (op : Op) (h : WF t) : WF (step t op) := by
  intro p hp
  cases op with
  | create q tag =>
    simp only [step] at hp ⊢
    by_cases e : p = q
    · rw [e]; exact List.mem_cons_self
    · simp only [e, if_false] at hp; exact List.mem_cons_of_mem _ (h p hp)
  | append q k =>
    simp only [step] at hp ⊢
    by_cases e : p = q
    · subst e
      simp only [if_true] at hp
      apply h
      intro hn; rw [hn] at hp; exact hp rfl
    · simp only [e, if_false] at hp; exact h p hp
  | swap m => exact h p hp
  | remove q =>
    simp only [step] at hp ⊢
    by_cases e : p = q
    · simp [e] at hp
    · simp only [e, if_false] at hp; exact h p hp

theorem WF_exec (ops : List Op) (t : Tree) (h : WF t) : WF (exec ops t) := by
  induction ops generalizing t with
  | nil => exact h
  | cons o os ih => exact ih _ (WF_step t o h)

/-- an operation that respects S1: a created file is going to receive the body served for its path -/
def OpOK (need : Need) : Op → Prop
  | .create p tag => ∀ n ∈ need.pool, n.path = p → n.tag = tag
  | _ => True

theorem K_step (need : Need) (t : Tree) (op : Op) (h : K need t) (ho : OpOK need op) : K need (step t op) := by
  intro n hn f hf
  cases op with
  | create q tag =>
    simp only [step] at hf
    by_cases e : n.path = q
    · simp only [e, if_true, Option.some.injEq] at hf
      rw [← hf]; exact (ho n hn e).symm
    · simp only [e, if_false] at hf; exact h n hn f hf
  | append q k =>
    simp only [step] at hf
    by_cases e : n.path = q
    · simp only [e, if_true] at hf
      cases hq : t.pool q with
      | none => rw [hq] at hf; cases hf
      | some g =>
        rw [hq] at hf
        simp only [Option.map_some, Option.some.injEq] at hf
        rw [← hf]
        exact h n hn g (by rw [e]; exact hq)
    · simp only [e, if_false] at hf; exact h n hn f hf
  | swap m => exact h n hn f hf
  | remove q =>
    simp only [step] at hf
    by_cases e : n.path = q
    · simp [e] at hf
    · simp only [e, if_false] at hf; exact h n hn f hf

theorem K_exec (need : Need) (ops : List Op) (t : Tree) (h : K need t) (ho : ∀ op ∈ ops, OpOK need op) : K need (exec ops t) := by
  induction ops generalizing t with
  | nil => exact h
  | cons o os ih =>
    exact ih _ (K_step need t o h (ho o List.mem_cons_self)) (fun op hop => ho op (List.mem_cons_of_mem _ hop))

theorem pairwise_unique (l : List PoolNeed) (hd : l.Pairwise (fun a b => a.path ≠ b.path)) (a b : PoolNeed)
    (ha : a ∈ l) (hb : b ∈ l) (hp : a.path = b.path) : a = b := by
  induction l with
  | nil => cases ha
  | cons x xs ih =>
    have hd' := List.pairwise_cons.mp hd
    rcases List.mem_cons.mp ha with rfl | ha' <;> rcases List.mem_cons.mp hb with rfl | hb'
    · rfl
    · exact absurd hp (hd'.1 b hb')
    · exact absurd hp.symm (hd'.1 a ha')
    · exact ih hd'.2 ha' hb'

theorem runOps_ok (t : Tree) (need : Need) (hok : NeedOK need) : ∀ op ∈ runOps t need, OpOK need op := by
  intro op hop
  simp only [runOps, List.mem_append, List.mem_singleton] at hop
  rcases hop with (h | h) | h
  · obtain ⟨n, hn, ho⟩ := poolOps_mem _ _ _ h
    unfold writeOps at ho
    rcases List.mem_cons.mp ho with rfl | ho
    · intro m hm hp
      rw [pairwise_unique _ hok.distinct m n hm hn hp]
    · obtain ⟨k, _, rfl⟩ := List.mem_map.mp ho
      trivial
  · rw [h]; trivial
  · unfold cleanOps at h
    obtain ⟨p, _, rfl⟩ := List.mem_map.mp h
    trivial

/-! ### the whole run -/

theorem keep_of_needed (need : Need) (n : PoolNeed) (hn : n ∈ need.pool) : keep need n.path = true := by
  unfold keep
  simp only [Bool.or_eq_true, List.any_eq_true, decide_eq_true_eq]
  exact Or.inl ⟨n, hn, rfl⟩

theorem keep_false (need : Need) (q : Path) (h : keep need q = false) : (∀ n ∈ need.pool, n.path ≠ q) ∧ need.keepExtra q = false := by
  unfold keep at h
  simp only [Bool.or_eq_false_iff, List.any_eq_false, decide_eq_true_eq] at h
  exact ⟨h.1, h.2⟩

/-- what a run that ends without error leaves behind -/
theorem run_effect (t : Tree) (need : Need) (hw : WF t) (hok : NeedOK need) :
    (run t need).dists = lookupMeta need.mfiles ∧
    (∀ n ∈ need.pool, ∃ f, (run t need).pool n.path = some f ∧ f.size = n.size ∧ (f.tag = n.tag ∨ t.pool n.path = some f)) ∧
    (∀ q, keep need q = false → (run t need).pool q = none) ∧
    (∀ q, (∀ n ∈ need.pool, n.path ≠ q) → need.keepExtra q = true → (run t need).pool q = t.pool q) := by
  unfold run runOps
  rw [exec_append, exec_append]
  obtain ⟨pa, pb, pc, pd⟩ := pool_effect need.pool t hok.distinct hok.sums
  have hw1 : WF (exec (poolOps t need.pool) t) := WF_exec _ _ hw
  have hsw : exec [Op.swap need.mfiles] (exec (poolOps t need.pool) t) =
      { exec (poolOps t need.pool) t with dists := lookupMeta need.mfiles } := rfl
  have hcl : cleanOps (exec (poolOps t need.pool) t) need =
      cleanOps { exec (poolOps t need.pool) t with dists := lookupMeta need.mfiles } need := rfl
  rw [hsw, hcl]
  have hw2 : WF { exec (poolOps t need.pool) t with dists := lookupMeta need.mfiles } := hw1
  obtain ⟨ca, cb, _⟩ := clean_effect { exec (poolOps t need.pool) t with dists := lookupMeta need.mfiles } need hw2
  refine ⟨cb, ?_, ?_, ?_⟩
  · intro n hn
    obtain ⟨f, hf, hs, ht⟩ := pa n hn
    refine ⟨f, ?_, hs, ht⟩
    rw [ca n.path, keep_of_needed need n hn]
    exact hf
  · intro q hq
    rw [ca q, hq]; rfl
  · intro q hq hx
    have hk : keep need q = true := by simp [keep, hx]
    rw [ca q, hk]
    exact pb q hq

/-! ### which paths a run can touch before the metadata goes live -/

/-- a write operation (no swap, no removal) on path `q` -/
def Op.writes (q : Path) : Op → Prop
  | .create p _ => p = q
  | .append p _ => p = q
  | _ => False

theorem step_untouched (t : Tree) (op : Op) (q p : Path) (h : op.writes q) (hp : p ≠ q) :
    (step t op).pool p = t.pool p ∧ (step t op).dists = t.dists := by
  cases op with
  | create r tag => simp only [Op.writes] at h; subst h; simp [step, hp]
  | append r k => simp only [Op.writes] at h; subst h; simp [step, hp]
  | swap m => cases h
  | remove r => cases h

theorem step_keeps_names (t : Tree) (op : Op) (q p : Path) (h : op.writes q) (hp : t.pool p ≠ none) : (step t op).pool p ≠ none := by
  cases op with
  | create r tag =>
    simp only [step]
    by_cases e : p = r <;> simp [e, hp]
  | append r k =>
    simp only [step]
    by_cases e : p = r
    · subst e
      simp only [if_true]
      cases hq : t.pool p with
      | none => exact absurd hq hp
      | some f => simp
    · simp [e, hp]
  | swap m => cases h
  | remove r => cases h

/-- operations that only write, each on a path of the set `T` -/
theorem exec_writes_only (ops : List Op) (T : Path → Prop) (t : Tree) (h : ∀ op ∈ ops, ∃ q, T q ∧ op.writes q) :
    (exec ops t).dists = t.dists ∧ (∀ p, ¬ T p → (exec ops t).pool p = t.pool p) ∧
    (∀ p, t.pool p ≠ none → (exec ops t).pool p ≠ none) := by
  induction ops generalizing t with
  | nil => exact ⟨rfl, fun _ _ => rfl, fun _ h => h⟩
  | cons o os ih =>
    obtain ⟨q, hT, hw⟩ := h o List.mem_cons_self
    obtain ⟨a, b, c⟩ := ih (step t o) (fun op hop => h op (List.mem_cons_of_mem _ hop))
    rw [exec_cons]
    refine ⟨?_, ?_, ?_⟩
    · rw [a]
      by_cases e : q = q
      · cases o with
        | create r tag => rfl
        | append r k => rfl
        | swap m => cases hw
        | remove r => cases hw
      · exact absurd rfl e
    · intro p hp
      rw [b p hp]
      exact (step_untouched t o q p hw (fun e => hp (e ▸ hT))).1
    · intro p hp
      exact c p (step_keeps_names t o q p hw hp)

theorem writeOps_writes (n : PoolNeed) (op : Op) (h : op ∈ writeOps n) : op.writes n.path := by
  unfold writeOps at h
  rcases List.mem_cons.mp h with rfl | h
  · rfl
  · obtain ⟨k, _, rfl⟩ := List.mem_map.mp h
    rfl

/-- every operation of the pool stage writes a needed file that was not there with its declared size when the run began -/
theorem poolOps_absent (ns : List PoolNeed) (t : Tree) (hd : ns.Pairwise (fun a b => a.path ≠ b.path))
    (hs : ∀ n ∈ ns, n.chunks.sum = n.size) (op : Op) (h : op ∈ poolOps t ns) :
    ∃ n ∈ ns, op ∈ writeOps n ∧ present t n = false := by
  induction ns generalizing t with
  | nil => cases h
  | cons n ns ih =>
    have hd' := List.pairwise_cons.mp hd
    simp only [poolOps, List.mem_append] at h
    rcases h with h | h
    · unfold fileOps at h
      by_cases hp : present t n = true
      · rw [if_pos hp] at h; cases h
      · rw [if_neg hp] at h
        exact ⟨n, List.mem_cons_self, h, by simpa using hp⟩
    · obtain ⟨m, hm, ho, hpm⟩ := ih _ hd'.2 (fun k hk => hs k (List.mem_cons_of_mem _ hk)) h
      refine ⟨m, List.mem_cons_of_mem _ hm, ho, ?_⟩
      obtain ⟨_, hoth, _, _, _⟩ := file_effect n t (hs n List.mem_cons_self)
      unfold present at hpm ⊢
      rw [hoth m.path (fun e => hd'.1 m hm e.symm)] at hpm
      exact hpm

end Mirror
end AptMirror
