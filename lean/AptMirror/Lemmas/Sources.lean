import AptMirror.Lemmas.Index
/-!
Stanza-level semantics of a Sources index (an abstract syntax tree of stanzas: `Package`, `Directory`, the four checksum
sections with their file entries, and arbitrary other fields with continuation lines), its rendering into lines, and the proof
that the line machine of `SourcesParser._do_parse_index` computes it.
-/
namespace AptMirror
namespace Index
open Str Cfg

/-! ### tokens -/

/-- a blank-free, non-empty word -/
structure Tok (t : S) : Prop where
  ne : t ≠ []
  nows : t.all (fun c => !isWs c) = true

theorem Tok.clean {t : S} (h : Tok t) : Clean t := by
  have hall : ∀ c ∈ t, isWs c = false := by
    intro c hc
    have := List.all_eq_true.mp h.nows c hc
    simpa using this
  constructor
  · cases t with
    | nil => exact absurd rfl h.ne
    | cons c r => exact ⟨c, r, rfl, hall c List.mem_cons_self⟩
  · have hne : t ≠ [] := h.ne
    refine ⟨t.dropLast, t.getLast hne, (List.dropLast_concat_getLast hne).symm, hall _ (List.getLast_mem hne)⟩

theorem takeWhile_tok (t r : S) (h : t.all (fun c => !isWs c) = true) :
    (t ++ ' ' :: r).takeWhile (fun c => !isWs c) = t := by
  induction t with
  | nil => simp [isWs]
  | cons c cs ih =>
    simp only [List.all_cons, Bool.and_eq_true] at h
    simp only [List.cons_append, List.takeWhile_cons, h.1, if_true]
    rw [ih h.2]

theorem takeWhile_tok_end (t : S) (h : t.all (fun c => !isWs c) = true) :
    t.takeWhile (fun c => !isWs c) = t := by
  induction t with
  | nil => rfl
  | cons c cs ih =>
    simp only [List.all_cons, Bool.and_eq_true] at h
    simp only [List.takeWhile_cons, h.1, if_true]
    rw [ih h.2]

theorem dropWhile_tok (t r : S) (h : t.all (fun c => !isWs c) = true) :
    (t ++ ' ' :: r).dropWhile (fun c => !isWs c) = ' ' :: r := by
  induction t with
  | nil => simp [isWs]
  | cons c cs ih =>
    simp only [List.all_cons, Bool.and_eq_true] at h
    simp only [List.cons_append, List.dropWhile_cons, h.1, if_true]
    exact ih h.2

theorem dropWhile_tok_end (t : S) (h : t.all (fun c => !isWs c) = true) :
    t.dropWhile (fun c => !isWs c) = [] := by
  induction t with
  | nil => rfl
  | cons c cs ih =>
    simp only [List.all_cons, Bool.and_eq_true] at h
    simp only [List.dropWhile_cons, h.1, if_true]
    exact ih h.2

theorem lstrip_tok (t r : S) (h : Tok t) : lstrip (' ' :: t ++ r) = t ++ r := by
  obtain ⟨c, r', hcr, hc⟩ := h.clean.head
  unfold lstrip
  rw [hcr]
  simp only [List.cons_append, List.dropWhile_cons]
  have : isWs ' ' = true := by decide
  simp [this, hc]

/-- `" h sz n<eol>".strip().split(maxsplit=2)` = `[h, sz, n]` -/
theorem split3_render (h sz n eol : S) (hh : Tok h) (hs : Tok sz) (hn : Tok n) (he : IsEol eol) :
    split3 (' ' :: h ++ ' ' :: sz ++ ' ' :: n ++ eol) = some (h, sz, n) := by
  have hclean : Clean (h ++ ' ' :: sz ++ ' ' :: n) := by
    obtain ⟨c, r, hcr, hc⟩ := hh.clean.head
    obtain ⟨r', c', hcr', hc'⟩ := hn.clean.last
    refine ⟨⟨c, r ++ ' ' :: sz ++ ' ' :: n, by rw [hcr]; simp, hc⟩, ⟨h ++ ' ' :: sz ++ ' ' :: r', c', by rw [hcr']; simp, hc'⟩⟩
  have h1 : strip (' ' :: h ++ ' ' :: sz ++ ' ' :: n ++ eol) = h ++ ' ' :: sz ++ ' ' :: n := by
    have := strip_pad [' '] (h ++ ' ' :: sz ++ ' ' :: n) eol (by decide) he.all hclean
    simpa [List.append_assoc] using this
  unfold split3
  simp only [h1]
  have e1 : h ++ ' ' :: sz ++ ' ' :: n = h ++ ' ' :: (sz ++ ' ' :: n) := by simp
  rw [e1, takeWhile_tok h _ hh.nows, dropWhile_tok h _ hh.nows]
  have e2 : lstrip (' ' :: (sz ++ ' ' :: n)) = sz ++ ' ' :: n := by
    have := lstrip_tok sz (' ' :: n) hs
    simpa using this
  rw [e2, takeWhile_tok sz _ hs.nows, dropWhile_tok sz _ hs.nows]
  have e3 : lstrip (' ' :: n) = n := by
    have := lstrip_tok n [] hn
    simpa using this
  rw [e3]
  have n1 : h.isEmpty = false := by cases h with | nil => exact absurd rfl hh.ne | cons _ _ => rfl
  have n2 : sz.isEmpty = false := by cases sz with | nil => exact absurd rfl hs.ne | cons _ _ => rfl
  have n3 : n.isEmpty = false := by cases n with | nil => exact absurd rfl hn.ne | cons _ _ => rfl
  simp [n1, n2, n3]

theorem splitWs_go_tok (t r cur : S) (acc : List S) (h : t.all (fun c => !isWs c) = true) :
    splitWs.go cur acc (t ++ r) = splitWs.go (t.reverse ++ cur) acc r := by
  induction t generalizing cur with
  | nil => rfl
  | cons c cs ih =>
    simp only [List.all_cons, Bool.and_eq_true, Bool.not_eq_true'] at h
    simp only [List.cons_append, splitWs.go, h.1, Bool.false_eq_true, if_false]
    rw [ih (c :: cur) h.2]
    simp

/-- `"a b".split()` = `[a, b]` for two words -/
theorem splitWs_two (a b : S) (ha : Tok a) (hb : Tok b) : splitWs (a ++ ' ' :: b) = [a, b] := by
  unfold splitWs
  rw [splitWs_go_tok a _ [] [] ha.nows]
  have hae : (a.reverse ++ []).isEmpty = false := by
    cases a with
    | nil => exact absurd rfl ha.ne
    | cons c cs => simp
  have hws : isWs ' ' = true := by decide
  simp only [splitWs.go, hws, if_true, hae, Bool.false_eq_true, if_false]
  have := splitWs_go_tok b [] [] [(a.reverse ++ []).reverse] hb.nows
  rw [List.append_nil b] at this
  rw [this]
  have hbe : (b.reverse ++ []).isEmpty = false := by
    cases b with
    | nil => exact absurd rfl hb.ne
    | cons c cs => simp
  simp [splitWs.go, hb.ne]

/-! ### the abstract syntax of a Sources stanza -/

inductive SecKind | files | sha1 | sha256 | sha512
deriving DecidableEq, Repr

def SecKind.header : SecKind → S
  | .files => "Files:\n".toList
  | .sha1 => "Checksums-Sha1:\n".toList
  | .sha256 => "Checksums-Sha256:\n".toList
  | .sha512 => "Checksums-Sha512:\n".toList

/-- one file entry of a checksum section: ` <hash> <size> <name>` -/
structure Entry where
  hash : S
  size : S
  name : S
  eol : S := ['\n']

def Entry.line (e : Entry) : S := ' ' :: e.hash ++ ' ' :: e.size ++ ' ' :: e.name ++ e.eol

structure Entry.OK (e : Entry) : Prop where
  hash : Tok e.hash
  size : Tok e.size
  name : Tok e.name
  eol : IsEol e.eol

def kDirectory : S := "Directory".toList
def kFiles : S := "Files".toList
def kChecksums : S := "Checksums-".toList
def shaNames : List S := ["Sha1".toList, "Sha256".toList, "Sha512".toList]

inductive SrcField
  | package (v eol : S)
  | directory (v eol : S)
  | sect (k : SecKind) (entries : List Entry)
  | other (f : Field)

def SrcField.lines : SrcField → List S
  | .package v eol => ["Package: ".toList ++ v ++ eol]
  | .directory v eol => ["Directory: ".toList ++ v ++ eol]
  | .sect k es => k.header :: es.map Entry.line
  | .other f => f.lines

/-- well-formedness: values are single words, line ends are line ends, and an `other` field is none of the fields the
    format gives a meaning to (its name may still be a prefix or an extension of one of them, or any `Checksums-<x>`) -/
def SrcField.OK : SrcField → Prop
  | .package v eol => Tok v ∧ IsEol eol
  | .directory v eol => Tok v ∧ IsEol eol
  | .sect _ es => ∀ e ∈ es, e.OK
  | .other f => NameOK f.name ∧ f.name ≠ kPackage ∧ f.name ≠ kDirectory ∧ f.name ≠ kFiles ∧
      (∀ t ∈ shaNames, f.name ≠ kChecksums ++ t)

/-! ### the meaning of a Sources stanza -/

structure SrcAcc where
  package : Option S := none
  directory : Option Path := none
  files : List (Path × Int) := []

def specEntry (files : List (Path × Int)) (e : Entry) : Except Err (List (Path × Int)) :=
  let p := pathParts e.name
  if !lexSafe p then pure files
  else match parseInt e.size with
    | some n => pure (addSrcFile files p n)
    | none => throw .valueError

def specSrcField (a : SrcAcc) : SrcField → Except Err SrcAcc
  | .package v _ => pure { a with package := some v }
  | .directory v _ =>
    let p := pathParts v
    if lexSafe p then pure { a with directory := some p } else pure a
  | .sect _ es => do
    let fs ← es.foldlM specEntry a.files
    pure { a with files := fs }
  | .other _ => pure a

/-- the end of a stanza: every file entry, placed under the Directory, provided the stanza has a Package that the source-name
    filters allow -/
def srcFlush (flt : Filter) (ign : List Path) (a : SrcAcc) (pool : List PoolFile) : List PoolFile :=
  match a.package, a.directory with
  | some pkg, some dir =>
    if pkg.isEmpty then pool
    else if !flt.allowed pkg none then pool
    else a.files.foldl (fun pl f =>
      let full := if isAbsPath f.1 then f.1 else dir ++ f.1
      putPool pl { path := full, size := f.2, ignoreErrors := shouldIgnore ign full }) pool
  | _, _ => pool

structure SrcStanza where
  fields : List SrcField
  blanks : Nat

def SrcStanza.lines (st : SrcStanza) : List S := st.fields.flatMap SrcField.lines ++ List.replicate st.blanks ['\n']

def specSrcFields (a : SrcAcc) (fs : List SrcField) : Except Err SrcAcc := fs.foldlM specSrcField a

/-- **stanza-level specification of a Sources index** -/
def specSources (flt : Filter) (ign : List Path) (sts : List SrcStanza) (pool : List PoolFile) : Except Err (List PoolFile) :=
  sts.foldlM (fun pool st => do let a ← specSrcFields {} st.fields; pure (srcFlush flt ign a pool)) pool

/-! ### simulation -/

def proj (s : SState) : SrcAcc := { package := s.package, directory := s.directory, files := s.files }

theorem strip_kv (key v eol : S) (hk : Tok key) (hv : Tok v) (he : IsEol eol) :
    strip (key ++ ' ' :: v ++ eol) = key ++ ' ' :: v := by
  obtain ⟨c, r, hcr, hc⟩ := hk.clean.head
  obtain ⟨r', c', hcr', hc'⟩ := hv.clean.last
  have hclean : Clean (key ++ ' ' :: v) :=
    ⟨⟨c, r ++ ' ' :: v, by rw [hcr]; simp, hc⟩, ⟨key ++ ' ' :: r', c', by rw [hcr']; simp, hc'⟩⟩
  have := strip_pad [] (key ++ ' ' :: v) eol (by rfl) he.all hclean
  simpa [List.append_assoc] using this

theorem tokPackage : Tok "Package:".toList := ⟨by decide, by decide⟩
theorem tokDirectory : Tok "Directory:".toList := ⟨by decide, by decide⟩

theorem sourcesLine_package (flt : Filter) (ign : List Path) (s : SState) (pool : List PoolFile) (v eol : S)
    (hv : Tok v) (he : IsEol eol) :
    sourcesLine flt ign (s, pool) ("Package: ".toList ++ v ++ eol) = .ok ({ s with package := some v }, pool) := by
  have e : "Package: ".toList ++ v ++ eol = "Package:".toList ++ ' ' :: v ++ eol := by simp
  rw [e]
  have hstrip := strip_kv _ v eol tokPackage hv he
  have hsplit := splitWs_two _ v tokPackage hv
  have h0 : ("Package:".toList ++ ' ' :: v ++ eol).head? = some 'P' := by simp
  have hsw : startsWith ("Package:".toList ++ ' ' :: v ++ eol) "Package:".toList = true := by
    simp [startsWith, List.isPrefixOf]
  unfold sourcesLine
  simp only [h0, hsw, hstrip, hsplit, if_true, Option.some.injEq, Char.reduceEq, if_false, ne_eq, not_false_eq_true]
  simp [pure, Except.pure]

theorem sourcesLine_directory (flt : Filter) (ign : List Path) (s : SState) (pool : List PoolFile) (v eol : S)
    (hv : Tok v) (he : IsEol eol) :
    sourcesLine flt ign (s, pool) ("Directory: ".toList ++ v ++ eol) =
      .ok (if lexSafe (pathParts v) then { s with directory := some (pathParts v) } else s, pool) := by
  have e : "Directory: ".toList ++ v ++ eol = "Directory:".toList ++ ' ' :: v ++ eol := by simp
  rw [e]
  have hstrip := strip_kv _ v eol tokDirectory hv he
  have hsplit := splitWs_two _ v tokDirectory hv
  have h0 : ("Directory:".toList ++ ' ' :: v ++ eol).head? = some 'D' := by simp
  have hsw : startsWith ("Directory:".toList ++ ' ' :: v ++ eol) "Directory:".toList = true := by
    simp [startsWith, List.isPrefixOf]
  have hsp : startsWith ("Directory:".toList ++ ' ' :: v ++ eol) "Package:".toList = false := by
    simp [startsWith, List.isPrefixOf]
  unfold sourcesLine
  simp only [h0, hsw, hsp, hstrip, hsplit, if_true, Option.some.injEq, Char.reduceEq, if_false, ne_eq, not_false_eq_true,
    Bool.false_eq_true]
  split <;> simp [pure, Except.pure]

theorem sourcesLine_files_hdr (flt : Filter) (ign : List Path) (s : SState) (pool : List PoolFile) (line : S)
    (h1 : line.head? ≠ some ' ') (h2 : line.head? ≠ some '\n') (h3 : startsWith line "Package:".toList = false)
    (h4 : startsWith line "Directory:".toList = false) (h5 : startsWith line "Files:".toList = true) :
    sourcesLine flt ign (s, pool) line = .ok ({ s with inSection := true }, pool) := by
  unfold sourcesLine
  simp only [h1, h2, h3, h4, h5, if_false, if_true, ne_eq, not_false_eq_true, Bool.false_eq_true, pure, Except.pure]

theorem sourcesLine_sha_hdr (flt : Filter) (ign : List Path) (s : SState) (pool : List PoolFile) (line : S)
    (h1 : line.head? ≠ some ' ') (h2 : line.head? ≠ some '\n') (h3 : startsWith line "Package:".toList = false)
    (h4 : startsWith line "Directory:".toList = false) (h5 : startsWith line "Files:".toList = false)
    (h6 : startsWith line "Checksums-".toList = true)
    (h7 : (decide ((line.drop "Checksums-".length).dropLast = "Sha1:".toList) ||
           decide ((line.drop "Checksums-".length).dropLast = "Sha256:".toList) ||
           decide ((line.drop "Checksums-".length).dropLast = "Sha512:".toList)) = true) :
    sourcesLine flt ign (s, pool) line = .ok ({ s with inSection := true }, pool) := by
  unfold sourcesLine
  simp only [h1, h2, h3, h4, h5, h6, h7, if_false, if_true, ne_eq, not_false_eq_true, Bool.false_eq_true, pure, Except.pure]

theorem sourcesLine_header (flt : Filter) (ign : List Path) (s : SState) (pool : List PoolFile) (k : SecKind) :
    sourcesLine flt ign (s, pool) k.header = .ok ({ s with inSection := true }, pool) := by
  cases k
  · exact sourcesLine_files_hdr flt ign s pool _ (by decide) (by decide) (by decide) (by decide) (by decide)
  · exact sourcesLine_sha_hdr flt ign s pool _ (by decide) (by decide) (by decide) (by decide) (by decide) (by decide) (by decide)
  · exact sourcesLine_sha_hdr flt ign s pool _ (by decide) (by decide) (by decide) (by decide) (by decide) (by decide) (by decide)
  · exact sourcesLine_sha_hdr flt ign s pool _ (by decide) (by decide) (by decide) (by decide) (by decide) (by decide) (by decide)

theorem sourcesLine_entry (flt : Filter) (ign : List Path) (s : SState) (pool : List PoolFile) (e : Entry) (he : e.OK)
    (hs : s.inSection = true) :
    sourcesLine flt ign (s, pool) e.line =
      (match specEntry s.files e with | .ok fs => .ok ({ s with files := fs }, pool) | .error er => .error er) := by
  obtain ⟨pk, dr, sec, fl⟩ := s
  simp only at hs
  subst hs
  have h0 : e.line.head? = some ' ' := by simp [Entry.line]
  have h3 := split3_render e.hash e.size e.name e.eol he.hash he.size he.name he.eol
  have hsp : e.name.contains ' ' = false := by
    have := he.name.nows
    rw [List.all_eq_true] at this
    simp only [List.contains_eq_mem, decide_eq_false_iff_not]
    intro hm
    have := this ' ' hm
    revert this; decide
  unfold sourcesLine specEntry
  simp only [h0, if_true, Bool.not_true, Bool.false_eq_true, if_false]
  unfold Entry.line at h3 ⊢
  rw [h3]
  simp only [hsp, Bool.false_eq_true, if_false]
  split
  · simp [pure, Except.pure]
  · cases parseInt e.size <;> simp [pure, Except.pure, throw, throwThe, MonadExceptOf.throw]

theorem foldlM_entries (flt : Filter) (ign : List Path) (es : List Entry) (hok : ∀ e ∈ es, e.OK) (s : SState)
    (pool : List PoolFile) (hs : s.inSection = true) :
    (es.map Entry.line).foldlM (sourcesLine flt ign) (s, pool) =
      (match es.foldlM specEntry s.files with | .ok fs => .ok ({ s with files := fs }, pool) | .error er => .error er) := by
  induction es generalizing s with
  | nil => rfl
  | cons e es ih =>
    simp only [List.map_cons, List.foldlM_cons]
    rw [sourcesLine_entry flt ign s pool e (hok e List.mem_cons_self) hs]
    cases hse : specEntry s.files e with
    | error er => simp [bind, Except.bind]
    | ok fs =>
      simp only [bind, Except.bind]
      have := ih (fun x hx => hok x (List.mem_cons_of_mem _ hx)) { s with files := fs } hs
      simpa using this

/-- a line that starts with a blank is skipped outside a checksum section -/
theorem sourcesLine_cont_skip (flt : Filter) (ign : List Path) (s : SState) (pool : List PoolFile) (c : S × S)
    (hs : s.inSection = false) :
    sourcesLine flt ign (s, pool) (contLine c) = .ok (s, pool) := by
  unfold sourcesLine contLine
  simp [hs, pure, Except.pure]

theorem foldlM_cont_skip (flt : Filter) (ign : List Path) (cs : List (S × S)) (s : SState) (pool : List PoolFile)
    (hs : s.inSection = false) :
    (cs.map contLine).foldlM (sourcesLine flt ign) (s, pool) = .ok (s, pool) := by
  induction cs with
  | nil => rfl
  | cons c cs ih =>
    simp only [List.map_cons, List.foldlM_cons, sourcesLine_cont_skip flt ign s pool c hs, bind, Except.bind]
    exact ih

/-- a colon-free prefix of `name:…` is a prefix of `name` -/
theorem prefix_of_name (p name r : S) (hp : ':' ∉ p) (h : p.isPrefixOf (name ++ ':' :: r) = true) :
    ∃ n', name = p ++ n' := by
  induction p generalizing name with
  | nil => exact ⟨name, rfl⟩
  | cons c cs ih =>
    cases name with
    | nil =>
      simp only [List.nil_append, List.isPrefixOf, Bool.and_eq_true, beq_iff_eq] at h
      exact absurd (by rw [h.1]; exact List.mem_cons_self) hp
    | cons d ds =>
      simp only [List.cons_append, List.isPrefixOf, Bool.and_eq_true, beq_iff_eq] at h
      obtain ⟨n', hn'⟩ := ih ds (fun hm => hp (List.mem_cons_of_mem _ hm)) h.2
      exact ⟨n', by rw [h.1, hn']; rfl⟩

theorem colon_split_unique (a b x y : S) (ha : ':' ∉ a) (hb : ':' ∉ b) (h : a ++ ':' :: x = b ++ ':' :: y) : a = b := by
  induction a generalizing b with
  | nil =>
    cases b with
    | nil => rfl
    | cons d ds =>
      simp only [List.nil_append, List.cons_append, List.cons.injEq] at h
      exact absurd (by rw [← h.1]; exact List.mem_cons_self) hb
  | cons c cs ih =>
    cases b with
    | nil =>
      simp only [List.nil_append, List.cons_append, List.cons.injEq] at h
      exact absurd (by rw [h.1]; exact List.mem_cons_self) ha
    | cons d ds =>
      simp only [List.cons_append, List.cons.injEq] at h
      rw [h.1, ih ds (fun hm => ha (List.mem_cons_of_mem _ hm)) (fun hm => hb (List.mem_cons_of_mem _ hm)) h.2]

/-- the section test of a `Checksums-<x>` line is false unless `<x>` is one of the three names -/
theorem checksums_test_false (n' rest t : S) (hn : ':' ∉ n') (ht : ':' ∉ t) (hne : n' ≠ t) :
    ((n' ++ ':' :: rest).dropLast == t ++ [':']) = false := by
  rw [beq_eq_false_iff_ne]
  intro h
  cases rest with
  | nil =>
    have e : (n' ++ [':']).dropLast = n' := by simp
    rw [e] at h
    exact hn (by rw [h]; simp)
  | cons c cs =>
    have e : (n' ++ ':' :: c :: cs).dropLast = n' ++ ':' :: (c :: cs).dropLast := by
      rw [List.dropLast_append_of_ne_nil (by simp)]
      simp [List.dropLast]
    rw [e] at h
    have h' : n' ++ ':' :: (c :: cs).dropLast = t ++ ':' :: [] := by simpa using h
    exact hne (colon_split_unique n' t _ _ hn ht h')

/-- first line of a field the format gives no meaning to: only the section flag is cleared -/
theorem sourcesLine_other (flt : Filter) (ign : List Path) (s : SState) (pool : List PoolFile) (f : Field)
    (hname : NameOK f.name) (h1 : f.name ≠ kPackage) (h2 : f.name ≠ kDirectory) (h3 : f.name ≠ kFiles)
    (h4 : ∀ t ∈ shaNames, f.name ≠ kChecksums ++ t) :
    sourcesLine flt ign (s, pool) f.first = .ok ({ s with inSection := false }, pool) := by
  have hn := hname.nocolon
  obtain ⟨c, r, hcr, hc⟩ := hname.head
  have hsp : f.first.head? ≠ some ' ' := by
    unfold Field.first; rw [hcr]
    simp only [List.cons_append, List.head?_cons, ne_eq, Option.some.injEq]
    intro e; rw [e] at hc; revert hc; decide
  have hnl := first_head f hname
  have kp : "Package:".toList = kPackage ++ [':'] := by decide
  have kd : "Directory:".toList = kDirectory ++ [':'] := by decide
  have kf : "Files:".toList = kFiles ++ [':'] := by decide
  have s1 := sw_false f kPackage (by decide) hn h1
  have s2 := sw_false f kDirectory (by decide) hn h2
  have s3 := sw_false f kFiles (by decide) hn h3
  unfold sourcesLine
  simp only [hsp, hnl, ne_eq, not_false_eq_true, if_true, if_false, kp, kd, kf, s1, s2, s3, Bool.false_eq_true]
  by_cases hcs : startsWith f.first "Checksums-".toList = true
  · simp only [hcs, if_true]
    have hpre : kChecksums.isPrefixOf (f.name ++ ':' :: (f.rest ++ f.eol)) = true := by
      have : f.first = f.name ++ ':' :: (f.rest ++ f.eol) := by simp [Field.first]
      rw [← this]; exact hcs
    obtain ⟨n', hn'⟩ := prefix_of_name kChecksums f.name _ (by decide) hpre
    have hn'c : ':' ∉ n' := fun hm => hn (by rw [hn']; exact List.mem_append_right _ hm)
    have hdrop : f.first.drop "Checksums-".length = n' ++ ':' :: (f.rest ++ f.eol) := by
      unfold Field.first
      rw [hn']
      have : "Checksums-".length = kChecksums.length := by decide
      rw [this]
      simp
    rw [hdrop]
    have t1 := checksums_test_false n' (f.rest ++ f.eol) "Sha1".toList hn'c (by decide)
      (fun e => h4 "Sha1".toList (by simp [shaNames]) (by rw [hn', e]))
    have t2 := checksums_test_false n' (f.rest ++ f.eol) "Sha256".toList hn'c (by decide)
      (fun e => h4 "Sha256".toList (by simp [shaNames]) (by rw [hn', e]))
    have t3 := checksums_test_false n' (f.rest ++ f.eol) "Sha512".toList hn'c (by decide)
      (fun e => h4 "Sha512".toList (by simp [shaNames]) (by rw [hn', e]))
    have e1 : "Sha1:".toList = "Sha1".toList ++ [':'] := by decide
    have e2 : "Sha256:".toList = "Sha256".toList ++ [':'] := by decide
    have e3 : "Sha512:".toList = "Sha512".toList ++ [':'] := by decide
    have d1 : decide ((n' ++ ':' :: (f.rest ++ f.eol)).dropLast = "Sha1:".toList) = false := by
      rw [e1]; simpa using t1
    have d2 : decide ((n' ++ ':' :: (f.rest ++ f.eol)).dropLast = "Sha256:".toList) = false := by
      rw [e2]; simpa using t2
    have d3 : decide ((n' ++ ':' :: (f.rest ++ f.eol)).dropLast = "Sha512:".toList) = false := by
      rw [e3]; simpa using t3
    simp only [d1, d2, d3, Bool.or_self, pure, Except.pure]
  · simp only [hcs, Bool.false_eq_true, if_false, pure, Except.pure]

theorem sourcesLine_blank (flt : Filter) (ign : List Path) (s : SState) (pool : List PoolFile) :
    sourcesLine flt ign (s, pool) ['\n'] = .ok ({}, srcFlush flt ign (proj s) pool) := by
  unfold sourcesLine srcFlush proj
  simp only [List.head?_cons, Option.some.injEq, Char.reduceEq, if_false, ne_eq, not_true_eq_false]
  cases s.package with
  | none => simp [pure, Except.pure]
  | some pkg =>
    cases s.directory with
    | none => simp [pure, Except.pure]
    | some dir =>
      simp only
      split
      · simp [pure, Except.pure]
      · split <;> simp [pure, Except.pure]

/-- **one rendered field is read as the field means** (whatever the section flag was before it) -/
theorem sources_field (flt : Filter) (ign : List Path) (fld : SrcField) (hok : fld.OK) (s : SState) (pool : List PoolFile) :
    match specSrcField (proj s) fld with
    | .ok a => ∃ s', fld.lines.foldlM (sourcesLine flt ign) (s, pool) = .ok (s', pool) ∧ proj s' = a
    | .error e => fld.lines.foldlM (sourcesLine flt ign) (s, pool) = .error e := by
  cases fld with
  | package v eol =>
    obtain ⟨hv, he⟩ := hok
    simp only [specSrcField, SrcField.lines, List.foldlM_cons, List.foldlM_nil, pure, Except.pure]
    rw [sourcesLine_package flt ign s pool v eol hv he]
    exact ⟨_, rfl, rfl⟩
  | directory v eol =>
    obtain ⟨hv, he⟩ := hok
    simp only [specSrcField, SrcField.lines, List.foldlM_cons, List.foldlM_nil]
    rw [sourcesLine_directory flt ign s pool v eol hv he]
    by_cases hsafe : lexSafe (pathParts v) = true
    · simp only [hsafe, if_true, pure, Except.pure]
      exact ⟨_, rfl, rfl⟩
    · simp only [hsafe, if_false, pure, Except.pure, Bool.false_eq_true]
      exact ⟨_, rfl, rfl⟩
  | sect k es =>
    simp only [specSrcField, SrcField.lines, List.foldlM_cons]
    rw [sourcesLine_header flt ign s pool k]
    simp only [bind, Except.bind]
    rw [foldlM_entries flt ign es hok { s with inSection := true } pool rfl]
    simp only [proj]
    cases es.foldlM specEntry s.files with
    | error er => simp
    | ok fs => exact ⟨_, rfl, rfl⟩
  | other f =>
    obtain ⟨hname, h1, h2, h3, h4⟩ := hok
    simp only [specSrcField, SrcField.lines, Field.lines, List.foldlM_cons, pure, Except.pure]
    rw [sourcesLine_other flt ign s pool f hname h1 h2 h3 h4]
    simp only [bind, Except.bind]
    rw [foldlM_cont_skip flt ign f.cont { s with inSection := false } pool rfl]
    exact ⟨_, rfl, rfl⟩

theorem sources_fields (flt : Filter) (ign : List Path) (fs : List SrcField) (hok : ∀ f ∈ fs, f.OK) (s : SState)
    (pool : List PoolFile) :
    match specSrcFields (proj s) fs with
    | .ok a => ∃ s', (fs.flatMap SrcField.lines).foldlM (sourcesLine flt ign) (s, pool) = .ok (s', pool) ∧ proj s' = a
    | .error e => (fs.flatMap SrcField.lines).foldlM (sourcesLine flt ign) (s, pool) = .error e := by
  induction fs generalizing s with
  | nil => exact ⟨s, rfl, rfl⟩
  | cons f fs ih =>
    have hf := sources_field flt ign f (hok f List.mem_cons_self) s pool
    simp only [specSrcFields, List.foldlM_cons, List.flatMap_cons, List.foldlM_append]
    cases hsf : specSrcField (proj s) f with
    | error e =>
      rw [hsf] at hf
      simp only at hf
      simp [hf, bind, Except.bind]
    | ok a =>
      rw [hsf] at hf
      obtain ⟨s1, hrun, hproj⟩ := hf
      simp only [hrun, bind, Except.bind]
      have := ih (fun g hg => hok g (List.mem_cons_of_mem _ hg)) s1
      rw [hproj] at this
      exact this

theorem srcFlush_empty (flt : Filter) (ign : List Path) (pool : List PoolFile) : srcFlush flt ign {} pool = pool := rfl

theorem foldlM_src_blanks (flt : Filter) (ign : List Path) (k : Nat) (pool : List PoolFile) :
    (List.replicate k ['\n']).foldlM (sourcesLine flt ign) ({}, pool) = .ok ({}, pool) := by
  induction k with
  | zero => rfl
  | succ k ih =>
    simp only [List.replicate_succ, List.foldlM_cons, sourcesLine_blank, bind, Except.bind]
    exact ih

theorem sources_stanzas (flt : Filter) (ign : List Path) (sts : List SrcStanza) (hb : ∀ st ∈ sts, 1 ≤ st.blanks)
    (hok : ∀ st ∈ sts, ∀ f ∈ st.fields, f.OK) (pool : List PoolFile) :
    (sts.flatMap SrcStanza.lines).foldlM (sourcesLine flt ign) ({}, pool) =
      (match specSources flt ign sts pool with | .ok p => .ok ({}, p) | .error e => .error e) := by
  induction sts generalizing pool with
  | nil => rfl
  | cons st sts ih =>
    obtain ⟨k, hk⟩ : ∃ k, st.blanks = k + 1 := ⟨st.blanks - 1, by have := hb st List.mem_cons_self; omega⟩
    simp only [List.flatMap_cons, SrcStanza.lines, hk, List.replicate_succ, List.foldlM_append, List.foldlM_cons, specSources]
    have hf := sources_fields flt ign st.fields (hok st List.mem_cons_self) {} pool
    have hp : proj {} = ({} : SrcAcc) := rfl
    rw [hp] at hf
    cases hs : specSrcFields {} st.fields with
    | error e =>
      rw [hs] at hf
      simp only at hf
      simp [hf, bind, Except.bind]
    | ok a =>
      rw [hs] at hf
      obtain ⟨s1, hrun, hproj⟩ := hf
      simp only [hrun, bind, Except.bind, sourcesLine_blank, hproj, foldlM_src_blanks, pure, Except.pure]
      exact ih (fun x hx => hb x (List.mem_cons_of_mem _ hx)) (fun x hx => hok x (List.mem_cons_of_mem _ hx)) _

end Index
end AptMirror
