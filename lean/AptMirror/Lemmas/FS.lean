import AptMirror.Model.Download
namespace AptMirror
namespace FS

@[simp] theorem relink_ino_self (fs : FS) (s d : Path) : (fs.relink s d).ino d = fs.ino s := by
  simp [relink]
@[simp] theorem relink_ino_other (fs : FS) (s d q : Path) (h : q ≠ d) : (fs.relink s d).ino q = fs.ino q := by
  simp [relink, h]
@[simp] theorem relink_dat (fs : FS) (s d : Path) : (fs.relink s d).dat = fs.dat := rfl
@[simp] theorem relink_next (fs : FS) (s d : Path) : (fs.relink s d).next = fs.next := rfl

@[simp] theorem unlink_ino_self (fs : FS) (p : Path) : (fs.unlink p).ino p = none := by simp [unlink]
@[simp] theorem unlink_ino_other (fs : FS) (p q : Path) (h : q ≠ p) : (fs.unlink p).ino q = fs.ino q := by
  simp [unlink, h]
@[simp] theorem unlink_dat (fs : FS) (p : Path) : (fs.unlink p).dat = fs.dat := rfl
@[simp] theorem unlink_next (fs : FS) (p : Path) : (fs.unlink p).next = fs.next := rfl


theorem rewrite_ino_self (fs : FS) (p : Path) (n tag : Nat) : (fs.rewrite p n tag).ino p = some fs.next := by
  simp [rewrite, createTrunc, setContent]
theorem rewrite_ino_other (fs : FS) (p q : Path) (n tag : Nat) (h : q ≠ p) :
    (fs.rewrite p n tag).ino q = fs.ino q := by
  simp [rewrite, createTrunc, setContent, h]
theorem rewrite_dat_new (fs : FS) (p : Path) (n tag : Nat) :
    (fs.rewrite p n tag).dat fs.next = { size := n, mtime := none, tag := tag } := by
  simp [rewrite, createTrunc, setContent]
theorem rewrite_dat_old (fs : FS) (p : Path) (n tag i : Nat) (h : i ≠ fs.next) :
    (fs.rewrite p n tag).dat i = fs.dat i := by
  simp [rewrite, createTrunc, setContent, h]
theorem rewrite_next (fs : FS) (p : Path) (n tag : Nat) : (fs.rewrite p n tag).next = fs.next + 1 := by
  simp [rewrite, createTrunc, setContent]
theorem rewrite_sizeAt (fs : FS) (p : Path) (n tag : Nat) : (fs.rewrite p n tag).sizeAt p = some n := by
  simp [sizeAt, rewrite_ino_self, rewrite_dat_new]

theorem utime_ino (fs : FS) (p : Path) (t : Int) : (fs.utime p t).ino = fs.ino := by
  unfold utime; split <;> rfl
theorem utime_size (fs : FS) (p : Path) (t : Int) (i : Nat) : ((fs.utime p t).dat i).size = (fs.dat i).size := by
  unfold utime; split
  · simp only; split <;> simp_all
  · rfl
theorem utime_sizeAt (fs : FS) (p q : Path) (t : Int) : (fs.utime p t).sizeAt q = fs.sizeAt q := by
  simp [sizeAt, utime_ino, utime_size]
theorem utime_next (fs : FS) (p : Path) (t : Int) : (fs.utime p t).next = fs.next := by
  unfold utime; split <;> rfl

end FS

/-! ### link_or_copy -/

theorem foldl_relink_dat (t0 : Path) (ts : List Path) (fs : FS) :
    (ts.foldl (fun acc t => if t = t0 then acc else acc.relink t0 t) fs).dat = fs.dat := by
  induction ts generalizing fs with
  | nil => rfl
  | cons t ts ih => simp only [List.foldl_cons]; rw [ih]; split <;> rfl

theorem foldl_relink_t0 (t0 : Path) (ts : List Path) (fs : FS) :
    (ts.foldl (fun acc t => if t = t0 then acc else acc.relink t0 t) fs).ino t0 = fs.ino t0 := by
  induction ts generalizing fs with
  | nil => rfl
  | cons t ts ih =>
    simp only [List.foldl_cons]; rw [ih]
    split
    · rfl
    · rename_i h; exact FS.relink_ino_other _ _ _ _ (Ne.symm h)

theorem foldl_relink_frame (t0 q : Path) (ts : List Path) (fs : FS) (hq : q ∉ ts) :
    (ts.foldl (fun acc t => if t = t0 then acc else acc.relink t0 t) fs).ino q = fs.ino q := by
  induction ts generalizing fs with
  | nil => rfl
  | cons t ts ih =>
    simp only [List.mem_cons, not_or] at hq
    simp only [List.foldl_cons]; rw [ih _ hq.2]
    split
    · rfl
    · exact FS.relink_ino_other _ _ _ _ hq.1

theorem foldl_relink_mem (t0 q : Path) (ts : List Path) (fs : FS) (hq : q ∈ ts) :
    (ts.foldl (fun acc t => if t = t0 then acc else acc.relink t0 t) fs).ino q = fs.ino t0 := by
  induction ts generalizing fs with
  | nil => cases hq
  | cons t ts ih =>
    simp only [List.foldl_cons]
    by_cases hmem : q ∈ ts
    · rw [ih _ hmem]
      split
      · rfl
      · rename_i h; exact FS.relink_ino_other _ _ _ _ (Ne.symm h)
    · have hqt : q = t := by
        cases hq with
        | head => rfl
        | tail _ h => exact absurd h hmem
      subst hqt
      rw [foldl_relink_frame _ _ _ _ hmem]
      split
      · rename_i h; rw [h]
      · simp

theorem linkOrCopy_dat (fs : FS) (src : Path) (ts : List Path) : (linkOrCopy fs src ts).dat = fs.dat := by
  unfold linkOrCopy
  split
  · rfl
  · split <;> rfl
  · rw [foldl_relink_dat]; split <;> rfl

theorem linkOrCopy_next (fs : FS) (src : Path) (ts : List Path) : (linkOrCopy fs src ts).next = fs.next := by
  unfold linkOrCopy
  split
  · rfl
  · split <;> rfl
  · have : ∀ (t0 : Path) (l : List Path) (g : FS),
        (l.foldl (fun acc t => if t = t0 then acc else acc.relink t0 t) g).next = g.next := by
      intro t0 l
      induction l with
      | nil => intro g; rfl
      | cons a l ih => intro g; simp only [List.foldl_cons]; rw [ih]; split <;> rfl
    rw [this]; split <;> rfl

/-- every target ends up naming the inode `source` named before -/
theorem linkOrCopy_mem (fs : FS) (src : Path) (ts : List Path) (q : Path) (hq : q ∈ ts) :
    (linkOrCopy fs src ts).ino q = fs.ino src := by
  unfold linkOrCopy
  split
  · cases hq
  · rename_i t
    have : q = t := by simpa using hq
    subst this
    split
    · rename_i h; rw [h]
    · simp
  · rename_i t0 rest _
    rw [foldl_relink_mem _ _ _ _ hq]
    split
    · rename_i h; rw [h]
    · simp

theorem linkOrCopy_frame (fs : FS) (src : Path) (ts : List Path) (q : Path) (hq : q ∉ ts) :
    (linkOrCopy fs src ts).ino q = fs.ino q := by
  unfold linkOrCopy
  split
  · rfl
  · rename_i t
    have : q ≠ t := by simpa using hq
    split
    · rfl
    · exact FS.relink_ino_other _ _ _ _ this
  · rename_i t0 rest _
    rw [foldl_relink_frame _ _ _ _ hq]
    have : q ≠ t0 := by
      intro h; apply hq; rw [h]; exact List.mem_cons_self
    split
    · rfl
    · exact FS.relink_ino_other _ _ _ _ this

end AptMirror
