import AptMirror.Lemmas.Download
namespace AptMirror

/-- number of transport-level reconnect signals left in a script -/
def retries (l : List Resp) : Nat := l.count .retry

/-- potential of URL `u`: requests made so far plus reconnect signals still to come -/
def DState.pot (s : DState) (u : Path) : Nat := s.reqs.count u + retries (s.orc u)

theorem dropRetries_count (l : List Resp) :
    (dropRetries l).1 + retries (dropRetries l).2 = retries l := by
  induction l with
  | nil => simp [dropRetries, retries]
  | cons a l ih =>
    cases a with
    | retry => simp only [dropRetries, retries, List.count_cons_self] at ih ⊢; omega
    | missing => simp [dropRetries, retries]
    | error => simp [dropRetries, retries]
    | ok a1 a2 a3 a4 a5 => simp [dropRetries, retries]

theorem count_replicate_self (k : Nat) (u : Path) (l : List Path) :
    (List.replicate k u ++ l).count u = k + l.count u := by
  simp [List.count_append, List.count_replicate_self]

theorem count_replicate_other (k : Nat) (u q : Path) (l : List Path) (h : q ≠ u) :
    (List.replicate k u ++ l).count q = l.count q := by
  have : (List.replicate k u).count q = 0 := by
    rw [List.count_replicate]; simp [Ne.symm h]
  simp [List.count_append, this]

/-- one (try-consuming) request raises the potential of its URL by exactly one -/
theorem request_pot_self (s : DState) (u : Path) : (s.request u).2.pot u = s.pot u + 1 := by
  have hc := dropRetries_count (s.orc u)
  unfold DState.request DState.pot
  split
  · rename_i k h
    rw [h] at hc
    have h0 : retries ([] : List Resp) = 0 := rfl
    simp only [h0] at hc
    simp only [count_replicate_self, if_true, h0]
    omega
  · rename_i k r rs h
    rw [h] at hc
    have hr : r ≠ .retry := dropRetries_ne_retry _ r rs (by rw [h])
    have h1 : retries (r :: rs) = retries rs := by
      unfold retries; exact List.count_cons_of_ne hr
    rw [h1] at hc
    simp only [count_replicate_self, if_true]
    omega

theorem request_other (s : DState) (u q : Path) (h : q ≠ u) :
    (s.request u).2.reqs.count q = s.reqs.count q ∧ (s.request u).2.orc q = s.orc q := by
  unfold DState.request
  split <;> simp [count_replicate_other _ _ _ _ h, h]

/-- requests/orc components are only changed by `request` inside `attempt` -/
theorem attempt_reqs (root : Path) (f : DFile) (v : Variant) (src : Path) (s : DState) (err : Bool) :
    (attempt root f v src s err).state.reqs = (s.request src).2.reqs ∧
    (attempt root f v src s err).state.orc = (s.request src).2.orc := by
  unfold attempt
  generalize s.request src = rs
  obtain ⟨r, s1⟩ := rs
  cases r with
  | retry => simp [Attempt.state]
  | missing => simp only; split <;> simp [Attempt.state]
  | error => simp only; split <;> simp [Attempt.state]
  | ok a d b ab t =>
    simp only
    repeat' split
    all_goals simp [Attempt.state]

theorem DState.pot_congr {s s' : DState} {u : Path} (h1 : s'.reqs = s.reqs) (h2 : s'.orc = s.orc) : s'.pot u = s.pot u := by
  simp [DState.pot, h1, h2]

theorem attempt_pot (root : Path) (f : DFile) (v : Variant) (src : Path) (s : DState) (err : Bool) (u : Path) :
    (attempt root f v src s err).state.pot u = s.pot u + (if u = src then 1 else 0) := by
  have h := attempt_reqs root f v src s err
  rw [DState.pot_congr h.1 h.2]
  by_cases hu : u = src
  · subst hu; simp [request_pot_self]
  · have := request_other s src u hu
    simp [hu, DState.pot, this.1, this.2]

/-- **the loop makes at most `n` try-consuming requests of its URL and none of any other** -/
theorem tryLoop_pot (root : Path) (f : DFile) (v : Variant) (src : Path) (n : Nat) (s : DState) (err : Bool) (u : Path) :
    (tryLoop root f v src n s err).2.1.pot u ≤ s.pot u + n * (if u = src then 1 else 0) := by
  induction n generalizing s err with
  | zero => simp [tryLoop]
  | succ n ih =>
    unfold tryLoop
    have h := attempt_pot root f v src s err u
    split
    · rename_i heq; rw [heq] at h; simp only [Attempt.state] at h
      simp only; split at h <;> simp_all <;> omega
    · rename_i heq; rw [heq] at h; simp only [Attempt.state] at h
      simp only; split at h <;> simp_all <;> omega
    · rename_i s' e' heq; rw [heq] at h; simp only [Attempt.state] at h
      have := ih s' e'
      split at h <;> simp_all <;> omega

theorem tryAliases_pot (root : Path) (f : DFile) (v : Variant) (srcs : List Path) (s : DState) (err : Bool) (u : Path) :
    (tryAliases root f v srcs s err).2.1.pot u ≤ s.pot u + 10 * srcs.count u := by
  induction srcs generalizing s err with
  | nil => simp [tryAliases]
  | cons src rest ih =>
    unfold tryAliases
    have h := tryLoop_pot root f v src 10 s err u
    have hc : (src :: rest).count u = rest.count u + (if u = src then 1 else 0) := by
      rw [List.count_cons]; by_cases hu : u = src
      · subst hu; simp
      · have : (src == u) = false := by simpa using fun h => hu h.symm
        simp [hu, this]
    split
    · rename_i s1 e1 heq; rw [heq] at h; simp only at h ⊢; rw [hc]; split at h <;> split <;> omega
    · rename_i s1 e1 heq; rw [heq] at h; simp only at h
      have := ih s1 e1
      rw [hc]; split at h <;> split <;> omega

def occurrences (u : Path) (vs : List Variant) : Nat := (vs.flatMap Variant.allPaths).count u

theorem tryVariants_pot (root : Path) (f : DFile) (vs : List Variant) (s : DState) (err : Bool) (u : Path) :
    (tryVariants root f vs s err).2.1.pot u ≤ s.pot u + 10 * occurrences u vs := by
  induction vs generalizing s err with
  | nil => simp [tryVariants]
  | cons v rest ih =>
    unfold tryVariants
    have h := tryAliases_pot root f v v.allPaths s err u
    have hc : occurrences u (v :: rest) = v.allPaths.count u + occurrences u rest := by
      simp [occurrences, List.count_append]
    split
    · rename_i s1 e1 heq; rw [heq] at h; simp only at h ⊢; omega
    · rename_i s1 e1 heq; rw [heq] at h; simp only at h
      have := ih s1 e1
      omega

theorem downloadFile_pot (root : Path) (f : DFile) (s : DState) (u : Path) :
    (downloadFile root f s).pot u ≤ s.pot u + 10 * occurrences u f.iterVariants := by
  unfold downloadFile
  have h := tryVariants_pot root f f.iterVariants s false u
  split
  · rename_i heq; rw [heq] at h; exact h
  · rename_i heq; rw [heq] at h
    repeat' split
    all_goals exact h

theorem downloadOne_pot (root : Path) (f : DFile) (s : DState) (u : Path) :
    (downloadOne root f s).pot u ≤ s.pot u + 10 * occurrences u f.iterVariants := by
  unfold downloadOne
  split
  · show s.pot u ≤ _; omega
  · exact downloadFile_pot root f s u

theorem foldl_downloadOne_pot (root : Path) (q : List DFile) (s : DState) (u : Path) :
    (q.foldl (fun acc f => downloadOne root f acc) s).pot u
      ≤ s.pot u + 10 * (q.map fun f => occurrences u f.iterVariants).sum := by
  induction q generalizing s with
  | nil => simp
  | cons f rest ih =>
    simp only [List.foldl_cons, List.map_cons, List.sum_cons]
    have h1 := downloadOne_pot root f s u
    have h2 := ih (downloadOne root f s)
    omega

end AptMirror
