import AptMirror.Model.Config
namespace AptMirror
namespace Cfg
open Str

theorem mem_addArch (xs : List S) (a b : S) : b ∈ addArch xs a ↔ b ∈ xs ∨ b = a := by
  unfold addArch
  split
  · rename_i h
    constructor
    · intro hb; exact Or.inl hb
    · rintro (hb | hb)
      · exact hb
      · subst hb; simpa using h
  · simp

theorem mem_foldl_addArch (ys xs : List S) (b : S) : b ∈ ys.foldl addArch xs ↔ b ∈ xs ∨ b ∈ ys := by
  induction ys generalizing xs with
  | nil => simp
  | cons y ys ih =>
    simp only [List.foldl_cons, List.mem_cons]
    rw [ih, mem_addArch]
    constructor
    · rintro ((h | h) | h)
      · exact Or.inl h
      · exact Or.inr (Or.inl h)
      · exact Or.inr (Or.inr h)
    · rintro (h | h | h)
      · exact Or.inl (Or.inl h)
      · exact Or.inl (Or.inr h)
      · exact Or.inr h

/-- what one line asks for, per component -/
def lineWhat (l : LineCfg) : What → Prop
  | .arch a => a ∈ l.arches
  | .source => l.source = true
  | .binaries => False

def compHas (k : CompRec) : What → Prop
  | .arch a => a ∈ k.arches
  | .source => k.source = true
  | .binaries => False

def InComps (comps : List CompRec) (comp : S) (w : What) : Prop :=
  ∃ k ∈ comps, k.name = comp ∧ compHas k w

theorem inComps_mergeComp (l : LineCfg) (comps : List CompRec) (c comp : S) (w : What) :
    InComps (mergeComp l comps c) comp w ↔ InComps comps comp w ∨ (comp = c ∧ lineWhat l w) := by
  unfold mergeComp
  split
  · rename_i hany
    constructor
    · rintro ⟨k, hk, hname, hhas⟩
      obtain ⟨k0, hk0, rfl⟩ := List.mem_map.mp hk
      by_cases hc : k0.name = c
      · simp only [hc, if_true] at hname hhas
        cases w with
        | arch a =>
          simp only [compHas] at hhas
          rw [mem_foldl_addArch] at hhas
          rcases hhas with h | h
          · exact Or.inl ⟨k0, hk0, by rw [hc]; exact hname, h⟩
          · exact Or.inr ⟨by rw [← hname], h⟩
        | source =>
          simp only [compHas, Bool.or_eq_true] at hhas
          rcases hhas with h | h
          · exact Or.inl ⟨k0, hk0, by rw [hc]; exact hname, h⟩
          · exact Or.inr ⟨by rw [← hname], h⟩
        | binaries => exact absurd hhas (by simp [compHas])
      · simp only [hc, if_false] at hname hhas
        exact Or.inl ⟨k0, hk0, hname, hhas⟩
    · rintro (⟨k, hk, hname, hhas⟩ | ⟨rfl, hl⟩)
      · by_cases hc : k.name = c
        · refine ⟨_, List.mem_map.mpr ⟨k, hk, rfl⟩, ?_, ?_⟩
          · simp [hc, ← hname]
          · simp only [hc, if_true]
            cases w with
            | arch a => simp only [compHas] at hhas ⊢; rw [mem_foldl_addArch]; exact Or.inl hhas
            | source => simp only [compHas] at hhas ⊢; simp [hhas]
            | binaries => exact absurd hhas (by simp [compHas])
        · refine ⟨_, List.mem_map.mpr ⟨k, hk, rfl⟩, ?_, ?_⟩
          · rw [if_neg hc]; exact hname
          · rw [if_neg hc]; exact hhas
      · simp only [List.any_eq_true, decide_eq_true_eq] at hany
        obtain ⟨k, hk, hkn⟩ := hany
        refine ⟨_, List.mem_map.mpr ⟨k, hk, rfl⟩, ?_, ?_⟩
        · simp [hkn]
        · simp only [hkn, if_true]
          cases w with
          | arch a => simp only [compHas, lineWhat] at hl ⊢; rw [mem_foldl_addArch]; exact Or.inr hl
          | source => simp only [compHas, lineWhat] at hl ⊢; simp [hl]
          | binaries => exact absurd hl (by simp [lineWhat])
  · rename_i hany
    constructor
    · rintro ⟨k, hk, hname, hhas⟩
      rcases List.mem_append.mp hk with hk | hk
      · exact Or.inl ⟨k, hk, hname, hhas⟩
      · simp at hk; subst hk
        refine Or.inr ⟨hname.symm, ?_⟩
        cases w with
        | arch a => simp only [compHas] at hhas; rw [mem_foldl_addArch] at hhas; simpa [lineWhat] using hhas
        | source => simpa [compHas, lineWhat] using hhas
        | binaries => exact absurd hhas (by simp [compHas])
    · rintro (⟨k, hk, hname, hhas⟩ | ⟨rfl, hl⟩)
      · exact ⟨k, List.mem_append_left _ hk, hname, hhas⟩
      · refine ⟨_, List.mem_append_right _ (List.mem_singleton.mpr rfl), rfl, ?_⟩
        cases w with
        | arch a => simp only [compHas, lineWhat] at hl ⊢; rw [mem_foldl_addArch]; exact Or.inr hl
        | source => simpa [compHas, lineWhat] using hl
        | binaries => exact absurd hl (by simp [lineWhat])

theorem inComps_foldl_mergeComp (l : LineCfg) (cs : List S) (comps : List CompRec) (comp : S) (w : What) :
    InComps (cs.foldl (mergeComp l) comps) comp w ↔ InComps comps comp w ∨ (comp ∈ cs ∧ lineWhat l w) := by
  induction cs generalizing comps with
  | nil => simp
  | cons c cs ih =>
    simp only [List.foldl_cons, List.mem_cons]
    rw [ih, inComps_mergeComp]
    constructor
    · rintro ((h | ⟨h1, h2⟩) | ⟨h1, h2⟩)
      · exact Or.inl h
      · exact Or.inr ⟨Or.inl h1, h2⟩
      · exact Or.inr ⟨Or.inr h1, h2⟩
    · rintro (h | ⟨h1 | h1, h2⟩)
      · exact Or.inl (Or.inl h)
      · exact Or.inl (Or.inr ⟨h1, h2⟩)
      · exact Or.inr ⟨h1, h2⟩

def InCns (cns : List CodenameRec) (cn comp : S) (w : What) : Prop :=
  ∃ c ∈ cns, c.name = cn ∧ InComps c.comps comp w

theorem inCns_mergeCodename (l : LineCfg) (cns : List CodenameRec) (c cn comp : S) (w : What) :
    InCns (mergeCodename l cns c) cn comp w ↔ InCns cns cn comp w ∨ (cn = c ∧ comp ∈ l.components ∧ lineWhat l w) := by
  unfold mergeCodename
  split
  · rename_i hany
    constructor
    · rintro ⟨k, hk, hname, hin⟩
      obtain ⟨k0, hk0, rfl⟩ := List.mem_map.mp hk
      by_cases hc : k0.name = c
      · simp only [hc, if_true] at hname hin
        rw [inComps_foldl_mergeComp] at hin
        rcases hin with h | ⟨h1, h2⟩
        · exact Or.inl ⟨k0, hk0, by rw [hc]; exact hname, h⟩
        · exact Or.inr ⟨hname.symm, h1, h2⟩
      · simp only [hc, if_false] at hname hin
        exact Or.inl ⟨k0, hk0, hname, hin⟩
    · rintro (⟨k, hk, hname, hin⟩ | ⟨rfl, h1, h2⟩)
      · by_cases hc : k.name = c
        · refine ⟨_, List.mem_map.mpr ⟨k, hk, rfl⟩, ?_, ?_⟩
          · simp [hc, ← hname]
          · simp only [hc, if_true]; rw [inComps_foldl_mergeComp]; exact Or.inl hin
        · refine ⟨_, List.mem_map.mpr ⟨k, hk, rfl⟩, ?_, ?_⟩
          · rw [if_neg hc]; exact hname
          · rw [if_neg hc]; exact hin
      · simp only [List.any_eq_true, decide_eq_true_eq] at hany
        obtain ⟨k, hk, hkn⟩ := hany
        refine ⟨_, List.mem_map.mpr ⟨k, hk, rfl⟩, ?_, ?_⟩
        · simp [hkn]
        · simp only [hkn, if_true]; rw [inComps_foldl_mergeComp]; exact Or.inr ⟨h1, h2⟩
  · constructor
    · rintro ⟨k, hk, hname, hin⟩
      rcases List.mem_append.mp hk with hk | hk
      · exact Or.inl ⟨k, hk, hname, hin⟩
      · simp at hk; subst hk
        simp only [newCodename] at hname hin
        rw [inComps_foldl_mergeComp] at hin
        rcases hin with ⟨k, hk, _⟩ | ⟨h1, h2⟩
        · cases hk
        · exact Or.inr ⟨hname.symm, h1, h2⟩
    · rintro (⟨k, hk, hname, hin⟩ | ⟨rfl, h1, h2⟩)
      · exact ⟨k, List.mem_append_left _ hk, hname, hin⟩
      · refine ⟨_, List.mem_append_right _ (List.mem_singleton.mpr rfl), rfl, ?_⟩
        simp only [newCodename]; rw [inComps_foldl_mergeComp]; exact Or.inr ⟨h1, h2⟩

theorem inCns_foldl_mergeCodename (l : LineCfg) (cs : List S) (cns : List CodenameRec) (cn comp : S) (w : What) :
    InCns (cs.foldl (mergeCodename l) cns) cn comp w ↔
      InCns cns cn comp w ∨ (cn ∈ cs ∧ comp ∈ l.components ∧ lineWhat l w) := by
  induction cs generalizing cns with
  | nil => simp
  | cons c cs ih =>
    simp only [List.foldl_cons, List.mem_cons]
    rw [ih, inCns_mergeCodename]
    constructor
    · rintro ((h | ⟨h1, h2⟩) | ⟨h1, h2⟩)
      · exact Or.inl h
      · exact Or.inr ⟨Or.inl h1, h2⟩
      · exact Or.inr ⟨Or.inr h1, h2⟩
    · rintro (h | ⟨h1 | h1, h2⟩)
      · exact Or.inl (Or.inl h)
      · exact Or.inl (Or.inr ⟨h1, h2⟩)
      · exact Or.inr ⟨h1, h2⟩

/-! flat directories -/
def flatHas (d : FlatRec) : What → Prop
  | .binaries => d.binaries = true
  | .source => d.source = true
  | .arch _ => False

def lineFlatWhat (l : LineCfg) : What → Prop
  | .binaries => l.arches.isEmpty = false
  | .source => l.source = true
  | .arch _ => False

def InDirs (dirs : List FlatRec) (dir : S) (w : What) : Prop := ∃ d ∈ dirs, d.dir = dir ∧ flatHas d w

theorem inDirs_mergeFlat (l : LineCfg) (dirs : List FlatRec) (c dir : S) (w : What) :
    InDirs (mergeFlat l dirs c) dir w ↔ InDirs dirs dir w ∨ (dir = rstrip '/' c ∧ lineFlatWhat l w) := by
  unfold mergeFlat
  simp only
  split
  · rename_i hany
    constructor
    · rintro ⟨k, hk, hname, hhas⟩
      obtain ⟨k0, hk0, rfl⟩ := List.mem_map.mp hk
      by_cases hc : k0.dir = rstrip '/' c
      · simp only [hc, if_true] at hname hhas
        cases w with
        | binaries =>
          simp only [flatHas, Bool.or_eq_true, Bool.not_eq_true'] at hhas
          rcases hhas with h | h
          · exact Or.inl ⟨k0, hk0, by rw [hc]; exact hname, h⟩
          · exact Or.inr ⟨hname.symm, h⟩
        | source =>
          simp only [flatHas, Bool.or_eq_true] at hhas
          rcases hhas with h | h
          · exact Or.inl ⟨k0, hk0, by rw [hc]; exact hname, h⟩
          · exact Or.inr ⟨hname.symm, h⟩
        | arch a => exact absurd hhas (by simp [flatHas])
      · simp only [hc, if_false] at hname hhas
        exact Or.inl ⟨k0, hk0, hname, hhas⟩
    · rintro (⟨k, hk, hname, hhas⟩ | ⟨rfl, hl⟩)
      · by_cases hc : k.dir = rstrip '/' c
        · refine ⟨_, List.mem_map.mpr ⟨k, hk, rfl⟩, ?_, ?_⟩
          · simp [hc, ← hname]
          · simp only [hc, if_true]
            cases w with
            | binaries => simp only [flatHas] at hhas ⊢; simp [hhas]
            | source => simp only [flatHas] at hhas ⊢; simp [hhas]
            | arch a => exact absurd hhas (by simp [flatHas])
        · refine ⟨_, List.mem_map.mpr ⟨k, hk, rfl⟩, ?_, ?_⟩
          · rw [if_neg hc]; exact hname
          · rw [if_neg hc]; exact hhas
      · simp only [List.any_eq_true, decide_eq_true_eq] at hany
        obtain ⟨k, hk, hkn⟩ := hany
        refine ⟨_, List.mem_map.mpr ⟨k, hk, rfl⟩, ?_, ?_⟩
        · simp [hkn]
        · simp only [hkn, if_true]
          cases w with
          | binaries => simp only [flatHas, lineFlatWhat] at hl ⊢; simp [hl]
          | source => simp only [flatHas, lineFlatWhat] at hl ⊢; simp [hl]
          | arch a => exact absurd hl (by simp [lineFlatWhat])
  · constructor
    · rintro ⟨k, hk, hname, hhas⟩
      rcases List.mem_append.mp hk with hk | hk
      · exact Or.inl ⟨k, hk, hname, hhas⟩
      · simp at hk; subst hk
        refine Or.inr ⟨hname.symm, ?_⟩
        cases w with
        | binaries => simpa [flatHas, lineFlatWhat] using hhas
        | source => simpa [flatHas, lineFlatWhat] using hhas
        | arch a => exact absurd hhas (by simp [flatHas])
    · rintro (⟨k, hk, hname, hhas⟩ | ⟨rfl, hl⟩)
      · exact ⟨k, List.mem_append_left _ hk, hname, hhas⟩
      · refine ⟨_, List.mem_append_right _ (List.mem_singleton.mpr rfl), rfl, ?_⟩
        cases w with
        | binaries => simpa [flatHas, lineFlatWhat] using hl
        | source => simpa [flatHas, lineFlatWhat] using hl
        | arch a => exact absurd hl (by simp [lineFlatWhat])

theorem inDirs_foldl_mergeFlat (l : LineCfg) (cs : List S) (dirs : List FlatRec) (dir : S) (w : What) :
    InDirs (cs.foldl (mergeFlat l) dirs) dir w ↔
      InDirs dirs dir w ∨ ((∃ c ∈ cs, dir = rstrip '/' c) ∧ lineFlatWhat l w) := by
  induction cs generalizing dirs with
  | nil => simp
  | cons c cs ih =>
    simp only [List.foldl_cons, List.mem_cons]
    rw [ih, inDirs_mergeFlat]
    constructor
    · rintro ((h | ⟨h1, h2⟩) | ⟨⟨c', hc', h1⟩, h2⟩)
      · exact Or.inl h
      · exact Or.inr ⟨⟨c, Or.inl rfl, h1⟩, h2⟩
      · exact Or.inr ⟨⟨c', Or.inr hc', h1⟩, h2⟩
    · rintro (h | ⟨⟨c', hc' | hc', h1⟩, h2⟩)
      · exact Or.inl (Or.inl h)
      · subst hc'; exact Or.inl (Or.inr ⟨h1, h2⟩)
      · exact Or.inr ⟨⟨c', hc', h1⟩, h2⟩

end Cfg
end AptMirror
