import AptMirror.Model.Control
namespace AptMirror

theorem releaseLoop_none_iff (rounds : Nat → Round) (fuel i : Nat) :
    (releaseLoop rounds fuel i).2 = none ↔ ∀ j, i ≤ j → j < i + fuel → (rounds j).valid = false := by
  induction fuel generalizing i with
  | zero => simp [releaseLoop]; intro j h1 h2; omega
  | succ fuel ih =>
    unfold releaseLoop
    by_cases hv : (rounds i).valid = true
    · simp only [hv, if_true]
      constructor
      · intro h; cases h
      · intro h; have := h i (Nat.le_refl _) (by omega); rw [hv] at this; cases this
    · simp only [hv, Bool.false_eq_true, if_false]
      have hv' : (rounds i).valid = false := by simpa using hv
      by_cases hf : fuel = 0
      · subst hf
        simp only [if_true]
        constructor
        · intro _ j h1 h2
          have : j = i := by omega
          subst this; exact hv'
        · intro _; trivial
      · simp only [hf, if_false]
        rw [ih (i + 1)]
        constructor
        · intro h j h1 h2
          by_cases hj : j = i
          · subst hj; exact hv'
          · exact h j (by omega) (by omega)
        · intro h j h1 h2; exact h j (by omega) (by omega)

/-- number of rounds run: the index of the first valid round + 1, or `fuel` if none is valid -/
theorem releaseLoop_rounds (rounds : Nat → Round) (fuel i : Nat) (hf : 0 < fuel) :
    i < (releaseLoop rounds fuel i).1 ∧ (releaseLoop rounds fuel i).1 ≤ i + fuel ∧
    (∀ j, i ≤ j → j + 1 < (releaseLoop rounds fuel i).1 → (rounds j).valid = false) ∧
    (match (releaseLoop rounds fuel i).2 with
     | some e => (rounds ((releaseLoop rounds fuel i).1 - 1)).valid = true ∧ e = (rounds ((releaseLoop rounds fuel i).1 - 1)).hasErrors
     | none => (releaseLoop rounds fuel i).1 = i + fuel) := by
  induction fuel generalizing i with
  | zero => omega
  | succ fuel ih =>
    unfold releaseLoop
    by_cases hv : (rounds i).valid = true
    · simp only [hv, if_true]
      refine ⟨by omega, by omega, ?_, ?_⟩
      · intro j h1 h2; omega
      · simp [hv]
    · simp only [hv, Bool.false_eq_true, if_false]
      have hv' : (rounds i).valid = false := by simpa using hv
      by_cases hf0 : fuel = 0
      · subst hf0
        simp only [if_true]
        refine ⟨by omega, by omega, ?_, ?_⟩
        · intro j h1 h2; omega
        · simp
      · simp only [hf0, if_false]
        obtain ⟨h1, h2, h3, h4⟩ := ih (i + 1) (by omega)
        refine ⟨by omega, by omega, ?_, ?_⟩
        · intro j hj1 hj2
          by_cases hj : j = i
          · subst hj; exact hv'
          · exact h3 j (by omega) hj2
        · split at h4
          · exact h4
          · omega

end AptMirror
