import AptMirror.Model.Clean
namespace AptMirror
namespace Script
open Str

def run (l : Lex) (s : S) : Lex := s.foldl Lex.step l

theorem run_append (l : Lex) (a b : S) : run l (a ++ b) = run (run l a) b := by simp [run, List.foldl_append]
theorem run_cons (l : Lex) (c : Char) (s : S) : run l (c :: s) = run (l.step c) s := rfl
theorem run_nil (l : Lex) : run l [] = l := rfl

/-- inside single quotes, the escaped text appends exactly the original text -/
theorem run_escapeSq (s : S) (l : Lex) (hm : l.mode = .single) (hw : l.inWord = true) :
    run l (escapeSq s) = { l with cur := s.reverse ++ l.cur } := by
  induction s generalizing l with
  | nil => simp [escapeSq, run]
  | cons c cs ih =>
    unfold escapeSq
    by_cases hc : c = '\''
    · subst hc
      simp only [if_true]
      rw [run_append]
      have h1 : run l "'\"'\"'".toList = { l with cur := '\'' :: l.cur } := by
        obtain ⟨m, cur, iw, ws, cm⟩ := l
        simp only at hm hw; subst hm hw
        rfl
      rw [h1, ih { l with cur := '\'' :: l.cur } hm hw]
      simp
    · simp only [hc, if_false]
      rw [run_cons]
      have h1 : l.step c = { l with cur := c :: l.cur } := by
        unfold Lex.step; rw [hm]; simp [hc]
      rw [h1, ih { l with cur := c :: l.cur } hm hw]
      simp

theorem safeChar_plain (c : Char) (h : safeChar c = true) : c ≠ '\'' ∧ c ≠ '"' ∧ c ≠ '\n' ∧ c ≠ ' ' ∧ c ≠ '\t' := by
  refine ⟨?_, ?_, ?_, ?_, ?_⟩ <;> (intro hc; subst hc; revert h; decide)

theorem run_safe (s : S) (l : Lex) (hm : l.mode = .plain) (hs : s.all safeChar = true) (hne : s ≠ []) :
    run l s = { l with cur := s.reverse ++ l.cur, inWord := true } := by
  induction s generalizing l with
  | nil => exact absurd rfl hne
  | cons c cs ih =>
    simp only [List.all_cons, Bool.and_eq_true] at hs
    obtain ⟨h1, h2, h3, h4, h5⟩ := safeChar_plain c hs.1
    rw [run_cons]
    have hstep : l.step c = { l with cur := c :: l.cur, inWord := true } := by
      unfold Lex.step; rw [hm]; simp [h1, h2, h3, h4, h5]
    rw [hstep]
    cases cs with
    | nil => simp [run]
    | cons d ds =>
      rw [ih { l with cur := c :: l.cur, inWord := true } hm hs.2 (by simp)]
      simp

/-- **round trip of `shlex.quote` through the shell lexer**: from plain mode, the quoted form of `s` contributes
    exactly the characters of `s` to the current word and leaves the lexer in plain mode, inside a word -/
theorem run_quote (s : S) (l : Lex) (hm : l.mode = .plain) :
    run l (quote s) = { l with cur := s.reverse ++ l.cur, inWord := true } := by
  unfold quote
  by_cases he : s.isEmpty = true
  · have : s = [] := by simpa using he
    subst this
    obtain ⟨m, cur, iw, ws, cm⟩ := l
    simp only at hm; subst hm
    rfl
  · simp only [he, Bool.false_eq_true, if_false]
    by_cases hs : s.all safeChar = true
    · simp only [hs, if_true]
      exact run_safe s l hm hs (by intro h; subst h; simp at he)
    · simp only [hs, Bool.false_eq_true, if_false]
      have h1 : l.step '\'' = { l with mode := .single, inWord := true } := by
        unfold Lex.step; rw [hm]; rfl
      rw [run_append]
      have h2 : run l ('\'' :: escapeSq s) = { l with mode := .single, inWord := true, cur := s.reverse ++ l.cur } := by
        rw [run_cons, h1, run_escapeSq s _ rfl rfl]
      rw [h2]
      obtain ⟨m, cur, iw, ws, cm⟩ := l
      simp only at hm; subst hm
      rfl

/-- a state between commands -/
def Between (l : Lex) : Prop := l.mode = .plain ∧ l.cur = [] ∧ l.inWord = false ∧ l.words = []

theorem run_rm_line (flag : S) (hflag : flag = "-f".toList ∨ flag = "-r".toList) (f : S) (l : Lex) (hb : Between l) :
    run l ("rm ".toList ++ flag ++ " ".toList ++ quote f ++ ['\n']) =
      { l with cmds := ["rm".toList, flag, f] :: l.cmds } := by
  obtain ⟨m, cur, iw, ws, cm⟩ := l
  obtain ⟨h1, h2, h3, h4⟩ := hb
  simp only at h1 h2 h3 h4
  subst h1 h2 h3 h4
  have hpre : run { mode := .plain, cur := [], inWord := false, words := [], cmds := cm } ("rm ".toList ++ flag ++ " ".toList) =
      { mode := .plain, cur := [], inWord := false, words := [flag, "rm".toList], cmds := cm } := by
    rcases hflag with rfl | rfl <;> rfl
  rw [run_append, run_append, hpre, run_quote f _ rfl]
  simp [run, Lex.step, Lex.endCmd, Lex.endWord]

theorem run_lines (flag : S) (hflag : flag = "-f".toList ∨ flag = "-r".toList) (fs : List S) (l : Lex) (hb : Between l) :
    run l (fs.flatMap fun f => "rm ".toList ++ flag ++ " ".toList ++ quote f ++ ['\n']) =
      { l with cmds := (fs.map fun f => ["rm".toList, flag, f]).reverse ++ l.cmds } := by
  induction fs generalizing l with
  | nil => simp [run]
  | cons f rest ih =>
    simp only [List.flatMap_cons]
    rw [run_append, run_rm_line flag hflag f l hb]
    rw [ih { l with cmds := ["rm".toList, flag, f] :: l.cmds } ⟨hb.1, hb.2.1, hb.2.2.1, hb.2.2.2⟩]
    simp

end Script
end AptMirror
