import AptMirror.Lemmas.FS
namespace AptMirror

/-- what an accepting step guarantees about the resulting state -/
structure AcceptedOK (root : Path) (v : Variant) (s s' : DState) : Prop where
  size : 0 < v.size → ∀ p ∈ v.allPaths, s'.fs.sizeAt (root ++ p) = some v.size
  present : ∀ p ∈ v.allPaths, (s'.fs.ino (root ++ p)).isSome
  oneInode : ∀ p ∈ v.allPaths, ∀ q ∈ v.allPaths, s'.fs.ino (root ++ p) = s'.fs.ino (root ++ q)
  downloaded : s'.book.downloaded = s.book.downloaded ++ [v]
  unmodified : s'.book.unmodified = s.book.unmodified
  noErr : s'.book.errCount = s.book.errCount ∧ s'.book.missCount = s.book.missCount

/-- what a non-accepting run of a loop preserves -/
structure ExhaustedOK (s s' : DState) : Prop where
  downloaded : s'.book.downloaded = s.book.downloaded
  unmodified : s'.book.unmodified = s.book.unmodified
  missing : s'.book.missing = s.book.missing
  noErr : s'.book.errCount = s.book.errCount ∧ s'.book.missCount = s.book.missCount

theorem ExhaustedOK.refl (s : DState) : ExhaustedOK s s := ⟨rfl, rfl, rfl, rfl, rfl⟩
theorem ExhaustedOK.trans {a b c : DState} (h1 : ExhaustedOK a b) (h2 : ExhaustedOK b c) : ExhaustedOK a c :=
  ⟨h2.downloaded.trans h1.downloaded, h2.unmodified.trans h1.unmodified, h2.missing.trans h1.missing,
   h2.noErr.1.trans h1.noErr.1, h2.noErr.2.trans h1.noErr.2⟩

theorem AcceptedOK.of_exhausted {root v} {a b c : DState} (h1 : ExhaustedOK a b) (h2 : AcceptedOK root v b c) :
    AcceptedOK root v a c :=
  ⟨h2.size, h2.present, h2.oneInode, by rw [h2.downloaded, h1.downloaded], by rw [h2.unmodified, h1.unmodified],
   h2.noErr.1.trans h1.noErr.1, h2.noErr.2.trans h1.noErr.2⟩

theorem request_book (s : DState) (u : Path) : (s.request u).2.book = s.book := by
  unfold DState.request; split <;> rfl
theorem request_fs (s : DState) (u : Path) : (s.request u).2.fs = s.fs := by
  unfold DState.request; split <;> rfl
theorem dropRetries_ne_retry (l : List Resp) : ∀ r rs, (dropRetries l).2 = r :: rs → r ≠ .retry := by
  induction l with
  | nil => intro r rs h; simp [dropRetries] at h
  | cons a l ih =>
    intro r rs h
    cases a with
    | retry => simp only [dropRetries] at h; exact ih r rs h
    | missing => simp [dropRetries] at h; rw [← h.1]; simp
    | error => simp [dropRetries] at h; rw [← h.1]; simp
    | ok a1 a2 a3 a4 a5 => simp [dropRetries] at h; rw [← h.1]; simp
theorem request_ne_retry (s : DState) (u : Path) : (s.request u).1 ≠ .retry := by
  unfold DState.request
  split
  · simp
  · rename_i k r rs h
    have : (dropRetries (s.orc u)).2 = r :: rs := by rw [h]
    exact dropRetries_ne_retry _ r rs this

theorem request_exh (s : DState) (u : Path) (r : Resp) (s1 : DState) (h : s.request u = (r, s1)) :
    ExhaustedOK s s1 := by
  have hb := request_book s u
  rw [h] at hb
  simp only at hb
  exact ⟨by rw [hb], by rw [hb], by rw [hb], by rw [hb], by rw [hb]⟩

theorem sizeAt_of_ino_eq {fs : FS} {p q : Path} (h : fs.ino p = fs.ino q) : fs.sizeAt p = fs.sizeAt q := by
  simp [FS.sizeAt, h]

theorem mem_map_root {root p : Path} {l : List Path} (h : p ∈ l) : root ++ p ∈ l.map (root ++ ·) :=
  List.mem_map.mpr ⟨p, h, rfl⟩

theorem linkOrCopy_sizeAt (fs : FS) (src : Path) (ts : List Path) (q : Path) (hq : q ∈ ts) :
    (linkOrCopy fs src ts).sizeAt q = fs.sizeAt src := by
  simp [FS.sizeAt, linkOrCopy_mem fs src ts q hq, linkOrCopy_dat]

theorem needUpdate_false {fs : FS} {p : Path} {a : Option Nat} {d : Option Int}
    (h : needUpdate fs p a d = false) : ∃ n, a = some n ∧ n ≠ 0 ∧ fs.sizeAt p = some n ∧ (fs.ino p).isSome := by
  unfold needUpdate at h
  split at h
  · rename_i dd dt sz hd
    simp at h
    refine ⟨sz, rfl, h.1, ?_, ?_⟩
    · unfold FS.dataAt at hd
      unfold FS.sizeAt
      cases hi : fs.ino p with
      | none => simp [hi] at hd
      | some i => simp [hi] at hd ⊢; rw [hd]; exact h.2.2
    · unfold FS.dataAt at hd
      cases hi : fs.ino p with
      | none => simp [hi] at hd
      | some i => rfl
  · simp at h

def LoopSpec (root : Path) (v : Variant) (s : DState) (r : TryResult × DState × Bool) : Prop :=
  match r with
  | (.accepted, s', _) => AcceptedOK root v s s'
  | (.exhausted, s', _) => ExhaustedOK s s'

theorem LoopSpec.step {root v s s1 r} (h0 : ExhaustedOK s s1) (h : LoopSpec root v s1 r) : LoopSpec root v s r := by
  unfold LoopSpec at *
  split
  · simp only at h; exact AcceptedOK.of_exhausted h0 h
  · simp only at h; exact h0.trans h

def AttemptSpec (root : Path) (v : Variant) (s : DState) : Attempt → Prop
  | .accept s' => AcceptedOK root v s s'
  | .again s' _ => ExhaustedOK s s'
  | .stop s' => ExhaustedOK s s'

theorem utimeOpt_sizeAt (fs : FS) (p q : Path) (d : Option Int) : (utimeOpt fs p d).sizeAt q = fs.sizeAt q := by
  cases d <;> simp [utimeOpt, FS.utime_sizeAt]
theorem utimeOpt_ino (fs : FS) (p : Path) (d : Option Int) : (utimeOpt fs p d).ino = fs.ino := by
  cases d <;> simp [utimeOpt, FS.utime_ino]

/-- Soundness of one pass through the loop body: acceptance implies the declared size on every alias. -/
theorem attempt_spec (root : Path) (f : DFile) (v : Variant) (src : Path) (s : DState) (err : Bool) :
    AttemptSpec root v s (attempt root f v src s err) := by
  unfold attempt
  split
  all_goals rename_i hreq
  all_goals have h0 := request_exh _ _ _ _ hreq
  · exact h0
  · split <;> exact h0
  · split <;> exact h0
  · rename_i announced date body abort tag s1
    split
    · split <;> exact h0
    · rename_i hsz
      split
      · rename_i hun
        show AcceptedOK root v s _
        refine AcceptedOK.of_exhausted h0 ?_
        obtain ⟨htru, hnu⟩ := hun
        simp only [Bool.not_eq_eq_eq_not, Bool.not_true] at hnu
        obtain ⟨k, hk, hk0, hksz, hpres⟩ := needUpdate_false hnu
        refine ⟨?_, ?_, ?_, rfl, rfl, rfl, rfl⟩
        · intro hv p hp
          show (linkOrCopy s1.fs (root ++ src) _).sizeAt (root ++ p) = some v.size
          rw [linkOrCopy_sizeAt _ _ _ _ (mem_map_root hp), hksz]
          subst hk
          by_cases hkv : k = v.size
          · rw [hkv]
          · exfalso; apply hsz; refine ⟨hv, htru, ?_⟩
            intro h; apply hkv; exact Option.some.inj h
        · intro p hp
          show ((linkOrCopy s1.fs (root ++ src) _).ino (root ++ p)).isSome
          rw [linkOrCopy_mem _ _ _ _ (mem_map_root hp)]; exact hpres
        · intro p hp q hq
          show (linkOrCopy s1.fs (root ++ src) _).ino (root ++ p) = (linkOrCopy s1.fs (root ++ src) _).ino (root ++ q)
          rw [linkOrCopy_mem _ _ _ _ (mem_map_root hp), linkOrCopy_mem _ _ _ _ (mem_map_root hq)]
      · split
        · exact h0.trans ⟨rfl, rfl, rfl, rfl, rfl⟩
        · split
          · exact h0.trans ⟨rfl, rfl, rfl, rfl, rfl⟩
          · rename_i hgood
            show AcceptedOK root v s _
            refine AcceptedOK.of_exhausted h0 ?_
            refine ⟨?_, ?_, ?_, rfl, rfl, rfl, rfl⟩
            · intro hv p hp
              show (linkOrCopy _ (root ++ src) _).sizeAt (root ++ p) = some v.size
              rw [linkOrCopy_sizeAt _ _ _ _ (mem_map_root hp), utimeOpt_sizeAt, FS.rewrite_sizeAt]
              by_cases hb : v.size = body
              · rw [hb]
              · exact absurd ⟨hv, hb⟩ hgood
            · intro p hp
              show ((linkOrCopy _ (root ++ src) _).ino (root ++ p)).isSome
              rw [linkOrCopy_mem _ _ _ _ (mem_map_root hp), utimeOpt_ino, FS.rewrite_ino_self]; rfl
            · intro p hp q hq
              show (linkOrCopy _ (root ++ src) _).ino (root ++ p) = (linkOrCopy _ (root ++ src) _).ino (root ++ q)
              rw [linkOrCopy_mem _ _ _ _ (mem_map_root hp), linkOrCopy_mem _ _ _ _ (mem_map_root hq)]

theorem tryLoop_spec (root : Path) (f : DFile) (v : Variant) (src : Path) (n : Nat) (s : DState) (err : Bool) :
    LoopSpec root v s (tryLoop root f v src n s err) := by
  induction n generalizing s err with
  | zero => exact ExhaustedOK.refl _
  | succ n ih =>
    unfold tryLoop
    have hs := attempt_spec root f v src s err
    split
    · rename_i heq; rw [heq] at hs; exact hs
    · rename_i heq; rw [heq] at hs; exact hs
    · rename_i s' e' heq; rw [heq] at hs; exact LoopSpec.step hs (ih s' e')

end AptMirror

namespace AptMirror

/-! ### lifting to aliases, variants, the whole file -/

def FileSpec (root : Path) (vs : List Variant) (s : DState) (r : TryResult × DState × Bool) : Prop :=
  match r with
  | (.accepted, s', _) => ∃ v ∈ vs, AcceptedOK root v s s'
  | (.exhausted, s', _) => ExhaustedOK s s'

theorem tryAliases_spec (root : Path) (f : DFile) (v : Variant) (srcs : List Path) (s : DState) (err : Bool) :
    LoopSpec root v s (tryAliases root f v srcs s err) := by
  induction srcs generalizing s err with
  | nil => exact ExhaustedOK.refl _
  | cons src rest ih =>
    unfold tryAliases
    have h := tryLoop_spec root f v src 10 s err
    split
    · rename_i heq; rw [heq] at h; exact h
    · rename_i s1 e1 heq; rw [heq] at h
      exact LoopSpec.step h (ih s1 e1)

theorem tryVariants_spec (root : Path) (f : DFile) (vs : List Variant) (s : DState) (err : Bool) :
    FileSpec root vs s (tryVariants root f vs s err) := by
  induction vs generalizing s err with
  | nil => exact ExhaustedOK.refl _
  | cons v rest ih =>
    unfold tryVariants
    have h := tryAliases_spec root f v v.allPaths s err
    split
    · rename_i heq; rw [heq] at h; exact ⟨v, List.mem_cons_self, h⟩
    · rename_i s1 e1 heq; rw [heq] at h
      have h2 := ih s1 e1
      unfold FileSpec at *
      split
      · rename_i heq2; rw [heq2] at h2
        obtain ⟨w, hw, hacc⟩ := h2
        exact ⟨w, List.mem_cons_of_mem _ hw, AcceptedOK.of_exhausted h hacc⟩
      · rename_i heq2; rw [heq2] at h2; exact h.trans h2

theorem mem_listUnion_right {a b : List Path} {p : Path} (h : p ∈ b) : p ∈ listUnion a b := by
  unfold listUnion
  by_cases ha : p ∈ a
  · exact List.mem_append_left _ ha
  · apply List.mem_append_right
    rw [List.mem_eraseDups]
    exact List.mem_filter.mpr ⟨h, by simpa using ha⟩

theorem mem_listUnion_left {a b : List Path} {p : Path} (h : p ∈ a) : p ∈ listUnion a b :=
  List.mem_append_left _ h

/-- the three ways `download_file` can end -/
inductive FileOutcome (root : Path) (f : DFile) (s s' : DState) : Prop
  | accepted (v : Variant) (hv : v ∈ f.iterVariants) (h : AcceptedOK root v s s')
  | ignored (h : ExhaustedOK s s') (hig : f.ignoreErrors = true ∨ f.ignoreMissing = true)
  | failed (hd : s'.book.downloaded = s.book.downloaded) (hu : s'.book.unmodified = s.book.unmodified)
      (hm : ∀ p ∈ f.allPaths, p ∈ s'.book.missing)
      (hc : s'.book.missCount + s'.book.errCount = s.book.missCount + s.book.errCount + 1)

theorem downloadFile_outcome (root : Path) (f : DFile) (s : DState) :
    FileOutcome root f s (downloadFile root f s) := by
  unfold downloadFile
  have h := tryVariants_spec root f f.iterVariants s false
  split
  · rename_i s1 _ heq; rw [heq] at h
    obtain ⟨v, hv, hacc⟩ := h
    exact .accepted v hv hacc
  · rename_i s1 err heq; rw [heq] at h
    have h : ExhaustedOK s s1 := h
    split
    · rename_i hig; exact .ignored h (Or.inl hig)
    · split
      · rename_i hig; exact .ignored h (Or.inr hig.1)
      · split
        · refine .failed h.downloaded h.unmodified ?_ ?_
          · intro p hp; exact mem_listUnion_right hp
          · show s1.book.missCount + 1 + s1.book.errCount = _
            rw [h.noErr.1, h.noErr.2]; omega
        · refine .failed h.downloaded h.unmodified ?_ ?_
          · intro p hp; exact mem_listUnion_right hp
          · show s1.book.missCount + (s1.book.errCount + 1) = _
            rw [h.noErr.1, h.noErr.2]; omega

end AptMirror
