import AptMirror.Model.Publish
import AptMirror.Lemmas.FS
namespace AptMirror

theorem isPrefix_append_self (m r : Path) : isPrefix m (m ++ r) = true := by
  induction m with
  | nil => simp [isPrefix]
  | cons a m ih => simp [isPrefix, ih]

/-- sibling directories: `m/x` is a prefix of `m/y/...` iff `x = y` -/
theorem isPrefix_sibling (m : Path) (x y : String) (r : Path) :
    isPrefix (m ++ [x]) (m ++ [y] ++ r) = (x == y) := by
  induction m with
  | nil => simp [isPrefix]
  | cons a m ih =>
    simp only [List.cons_append, isPrefix, beq_self_eq_true, Bool.true_and]
    simpa using ih

theorem drop_sibling (m : Path) (x : String) (r : Path) : (m ++ [x] ++ r).drop (m ++ [x]).length = r := by
  simp

/-- names whose binding an operation may change -/
def Op.touches : Op → Path → Bool
  | .relink _ d, q => q == d
  | .renameDir a b, q => isPrefix a q || isPrefix b q
  | .rmtree a, q => isPrefix a q
  | .unlink p, q => q == p

theorem Op.apply_dat (fs : FS) (op : Op) : (op.apply fs).dat = fs.dat := by
  cases op <;> rfl

theorem Op.apply_ino_untouched (fs : FS) (op : Op) (q : Path) (h : op.touches q = false) :
    (op.apply fs).ino q = fs.ino q := by
  cases op with
  | relink s d =>
    simp only [Op.touches, beq_eq_false_iff_ne] at h
    simp [Op.apply, FS.relink, h]
  | renameDir a b =>
    simp only [Op.touches, Bool.or_eq_false_iff] at h
    simp [Op.apply, FS.renameDir, h.1, h.2]
  | rmtree a =>
    simp only [Op.touches] at h
    simp [Op.apply, FS.rmtree, h]
  | unlink p =>
    simp only [Op.touches, beq_eq_false_iff_ne] at h
    simp [Op.apply, FS.unlink, h]

theorem replay_dat (ops : List Op) (fs : FS) : (replay ops fs).dat = fs.dat := by
  induction ops generalizing fs with
  | nil => rfl
  | cons op ops ih => simp only [replay, List.foldl_cons] at ih ⊢; rw [ih, Op.apply_dat]

theorem replay_ino_untouched (ops : List Op) (fs : FS) (q : Path) (h : ∀ op ∈ ops, op.touches q = false) :
    (replay ops fs).ino q = fs.ino q := by
  induction ops generalizing fs with
  | nil => rfl
  | cons op ops ih =>
    simp only [replay, List.foldl_cons] at ih ⊢
    rw [ih _ (fun o ho => h o (List.mem_cons_of_mem _ ho)), Op.apply_ino_untouched _ _ _ (h op List.mem_cons_self)]

/-- a directory none of whose names is touched keeps its view -/
theorem replay_view_untouched (ops : List Op) (fs : FS) (d : Path)
    (h : ∀ op ∈ ops, ∀ rel, op.touches (d ++ rel) = false) : (replay ops fs).view d = fs.view d := by
  funext rel
  simp only [FS.view]
  rw [replay_ino_untouched ops fs (d ++ rel) (fun op ho => h op ho rel), replay_dat]

theorem replay_append (a b : List Op) (fs : FS) : replay (a ++ b) fs = replay b (replay a fs) := by
  simp [replay, List.foldl_append]

/-- swap names as siblings below the mirror directory -/
structure Names where
  mirror : Path
  c : String
  n : String
  o : String
  hcn : c ≠ n
  hco : c ≠ o
  hno : n ≠ o

def Names.swap (N : Names) : Swap := { cur := N.mirror ++ [N.c], new := N.mirror ++ [N.n], old := N.mirror ++ [N.o] }

/-- every op of the leftovers+staging phase touches only names below `new` or `old` -/
def StagePhase (N : Names) (op : Op) : Prop :=
  (∃ s r, op = .relink s (N.mirror ++ [N.n] ++ r)) ∨ op = .rmtree (N.mirror ++ [N.n]) ∨ op = .rmtree (N.mirror ++ [N.o])

theorem stagePhase_untouched_cur (N : Names) (op : Op) (h : StagePhase N op) (rel : Path) :
    op.touches (N.mirror ++ [N.c] ++ rel) = false := by
  rcases h with ⟨s, r, rfl⟩ | rfl | rfl
  · simp only [Op.touches, beq_eq_false_iff_ne]
    intro heq
    have h1 := isPrefix_sibling N.mirror N.n N.c rel
    have h2 := isPrefix_append_self (N.mirror ++ [N.n]) r
    rw [heq, h2] at h1
    have : N.n = N.c := by simpa using h1.symm
    exact N.hcn this.symm
  · simp only [Op.touches]; rw [isPrefix_sibling]; simpa using fun h => N.hcn h.symm
  · simp only [Op.touches]; rw [isPrefix_sibling]; simpa using fun h => N.hco h.symm

theorem stagePhase_untouched_old (N : Names) (op : Op) (h : (∃ s r, op = .relink s (N.mirror ++ [N.n] ++ r)) ∨ op = .rmtree (N.mirror ++ [N.n])) (rel : Path) :
    op.touches (N.mirror ++ [N.o] ++ rel) = false := by
  rcases h with ⟨s, r, rfl⟩ | rfl
  · simp only [Op.touches, beq_eq_false_iff_ne]
    intro heq
    have h1 := isPrefix_sibling N.mirror N.n N.o rel
    have h2 := isPrefix_append_self (N.mirror ++ [N.n]) r
    rw [heq, h2] at h1
    have : N.n = N.o := by simpa using h1.symm
    exact N.hno this
  · simp only [Op.touches]; rw [isPrefix_sibling]; simpa using N.hno

theorem linkOps_stage (N : Names) (src : Path) (ts : List Path) :
    ∀ op ∈ linkOps src (ts.map (N.swap.new ++ ·)), ∃ s r, op = .relink s (N.mirror ++ [N.n] ++ r) := by
  intro op hop
  unfold linkOps at hop
  split at hop
  · cases hop
  · rename_i t heq
    split at hop
    · cases hop
    · simp at hop; subst hop
      cases ts with
      | nil => simp at heq
      | cons a l => simp at heq; exact ⟨src, a, by rw [← heq.1]; rfl⟩
  · rename_i t0 rest _ heq
    simp only [List.mem_append, List.mem_map, List.mem_filter] at hop
    rcases hop with hop | ⟨t, ⟨ht, _⟩, rfl⟩
    · split at hop
      · cases hop
      · simp at hop; subst hop
        cases ts with
        | nil => simp at heq
        | cons a l => simp at heq; exact ⟨src, a, by rw [← heq.1]; rfl⟩
    · have : t ∈ ts.map (N.swap.new ++ ·) := by rw [heq]; exact ht
      obtain ⟨r, _, rfl⟩ := List.mem_map.mp this
      exact ⟨t0, r, rfl⟩

theorem stageOps_stage (N : Names) (files : List (Path × List Path)) :
    ∀ op ∈ stageOps N.swap files, ∃ s r, op = .relink s (N.mirror ++ [N.n] ++ r) := by
  intro op hop
  unfold stageOps at hop
  obtain ⟨f, _, hf⟩ := List.mem_flatMap.mp hop
  exact linkOps_stage N f.1 f.2 op hf

end AptMirror
