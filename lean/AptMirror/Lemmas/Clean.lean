import AptMirror.Model.Clean
import AptMirror.Lemmas.Publish
/-! Lemmas about the recursive scan of `PathCleaner`: what ends up in the two queues, stated on the flat view of the tree. -/
namespace AptMirror
namespace Clean

theorem isPrefix_iff (a b : Path) : isPrefix a b = true ↔ ∃ r, b = a ++ r := by
  induction a generalizing b with
  | nil => exact ⟨fun _ => ⟨b, rfl⟩, fun _ => rfl⟩
  | cons x xs ih =>
    cases b with
    | nil => simp [isPrefix]
    | cons y ys =>
      simp only [isPrefix, Bool.and_eq_true, beq_iff_eq, ih, List.cons_append, List.cons.injEq]
      constructor
      · rintro ⟨rfl, r, rfl⟩; exact ⟨r, rfl, rfl⟩
      · rintro ⟨r, rfl, rfl⟩; exact ⟨rfl, r, rfl⟩

theorem isPrefix_refl (a : Path) : isPrefix a a = true := (isPrefix_iff a a).mpr ⟨[], by simp⟩

theorem isPrefix_trans {a b c : Path} (h1 : isPrefix a b = true) (h2 : isPrefix b c = true) : isPrefix a c = true := by
  obtain ⟨r, rfl⟩ := (isPrefix_iff _ _).mp h1
  obtain ⟨s, rfl⟩ := (isPrefix_iff _ _).mp h2
  exact (isPrefix_iff _ _).mpr ⟨r ++ s, by simp⟩

theorem isPrefix_antisymm {a b : Path} (h1 : isPrefix a b = true) (h2 : isPrefix b a = true) : a = b := by
  obtain ⟨r, rfl⟩ := (isPrefix_iff _ _).mp h1
  obtain ⟨s, hs⟩ := (isPrefix_iff _ _).mp h2
  have : (a ++ r ++ s).length = a.length := by rw [← hs]
  simp only [List.length_append] at this
  have hr : r = [] := List.eq_nil_of_length_eq_zero (by omega)
  simp [hr]

theorem properPrefix_iff (a b : Path) : properPrefix a b = true ↔ ∃ x r, b = a ++ x :: r := by
  unfold properPrefix
  simp only [Bool.and_eq_true, decide_eq_true_eq, isPrefix_iff]
  constructor
  · rintro ⟨⟨r, rfl⟩, hl⟩
    cases r with
    | nil => simp at hl
    | cons x r => exact ⟨x, r, rfl⟩
  · rintro ⟨x, r, rfl⟩
    exact ⟨⟨x :: r, rfl⟩, by simp⟩

theorem proper_isPrefix' {k p : Path} (h : properPrefix k p = true) : isPrefix k p = true := by
  obtain ⟨x, r, rfl⟩ := (properPrefix_iff _ _).mp h
  exact isPrefix_append_self _ _

/-- `k` lies on the path from `rel` down to `p` (both ends included) -/
def Between (rel k p : Path) : Prop := isPrefix rel k = true ∧ isPrefix k p = true

/-- a prefix of `p` that properly extends `rel`, where `p` lies below `rel ++ [n]`, lies at or below `rel ++ [n]` -/
theorem below_child {rel k p : Path} {n : String} (hp : isPrefix (rel ++ [n]) p = true)
    (h1 : properPrefix rel k = true) (h2 : isPrefix k p = true) : isPrefix (rel ++ [n]) k = true := by
  obtain ⟨x, r, rfl⟩ := (properPrefix_iff _ _).mp h1
  obtain ⟨s, rfl⟩ := (isPrefix_iff _ _).mp h2
  obtain ⟨t, ht⟩ := (isPrefix_iff _ _).mp hp
  have hx : x = n := by
    have h3 : rel ++ (x :: (r ++ s)) = rel ++ (n :: t) := by simpa [List.append_assoc] using ht
    exact (List.cons.inj (List.append_cancel_left h3)).1
  subst hx
  exact (isPrefix_iff _ _).mpr ⟨r, by simp⟩

theorem child_proper (rel : Path) (n : String) {k : Path} (h : isPrefix (rel ++ [n]) k = true) : properPrefix rel k = true := by
  obtain ⟨r, rfl⟩ := (isPrefix_iff _ _).mp h
  exact (properPrefix_iff _ _).mpr ⟨n, r, by simp⟩

theorem isPrefix_child (rel : Path) (n : String) : isPrefix rel (rel ++ [n]) = true := isPrefix_append_self rel [n]

/-! ### every entry of a flattened subtree lies below the subtree's path -/
mutual
theorem flattenNode_prefix (rel : Path) : (n : Node) → ∀ e ∈ flattenNode rel n, isPrefix rel e.1 = true
  | .file _, e, he => by
    simp only [flattenNode, List.mem_singleton] at he; subst he; exact isPrefix_refl rel
  | .symlink, e, he => by
    simp only [flattenNode, List.mem_singleton] at he; subst he; exact isPrefix_refl rel
  | .dir cs, e, he => by
    simp only [flattenNode, List.mem_cons] at he
    rcases he with rfl | he
    · exact isPrefix_refl rel
    · obtain ⟨nm, _, hpre⟩ := flattenList_prefix rel cs e he
      exact isPrefix_trans (isPrefix_child rel nm) hpre
theorem flattenList_prefix (rel : Path) : (cs : List (String × Node)) → ∀ e ∈ flattenList rel cs,
    ∃ nm, nm ∈ cs.map Prod.fst ∧ isPrefix (rel ++ [nm]) e.1 = true
  | [], e, he => by simp [flattenList] at he
  | (nm, c) :: rest, e, he => by
    simp only [flattenList, List.mem_append] at he
    rcases he with he | he
    · exact ⟨nm, by simp, flattenNode_prefix (rel ++ [nm]) c e he⟩
    · obtain ⟨n2, hn2, hp⟩ := flattenList_prefix rel rest e he
      exact ⟨n2, by simp [hn2], hp⟩
end

theorem child_name_unique {rel x : Path} {a b : String} (h1 : isPrefix (rel ++ [a]) x = true) (h2 : isPrefix (rel ++ [b]) x = true) : a = b := by
  obtain ⟨r, rfl⟩ := (isPrefix_iff _ _).mp h1
  obtain ⟨s, hs⟩ := (isPrefix_iff _ _).mp h2
  have h3 : rel ++ (a :: r) = rel ++ (b :: s) := by simpa [List.append_assoc] using hs
  exact (List.cons.inj (List.append_cancel_left h3)).1

theorem longer_not_prefix {rel d : Path} {nm : String} (h : isPrefix (rel ++ [nm]) d = true) : isPrefix d rel = false := by
  obtain ⟨r, rfl⟩ := (isPrefix_iff _ _).mp h
  cases hh : isPrefix (rel ++ [nm] ++ r) rel with
  | false => rfl
  | true =>
    obtain ⟨s, hs⟩ := (isPrefix_iff _ _).mp hh
    have : rel.length = (rel ++ [nm] ++ r ++ s).length := by rw [← hs]
    simp only [List.length_append, List.length_cons, List.length_nil] at this
    omega

/-! ### the unlink queue -/
theorem merge_filesQ (a b : Scan) : (a.merge b).filesQ = a.filesQ ++ b.filesQ := rfl
theorem merge_foldersQ (a b : Scan) : (a.merge b).foldersQ = a.foldersQ ++ b.foldersQ := rfl
theorem merge_needed (a b : Scan) : (a.merge b).needed = (a.needed || b.needed) := rfl

mutual
/-- a path is queued for unlinking by the scan of the subtree at `rel` iff it is a regular file of that subtree and nothing
    on the way from `rel` down to it (both included) is kept -/
theorem filesQ_node (keep : List Path) (isRoot : Bool) (rel : Path) : (n : Node) → ∀ p,
    p ∈ (scanNode keep isRoot rel n).filesQ ↔ ((p, Kind.file) ∈ flattenNode rel n ∧ ∀ k ∈ keep, ¬ Between rel k p)
  | .file sz, p => by
    by_cases hk : rel ∈ keep
    · simp only [scanNode, List.contains_iff_mem, hk, if_true, Scan.empty, flattenNode, List.mem_singleton, Prod.mk.injEq, and_true]
      constructor
      · intro h; cases h
      · rintro ⟨rfl, h⟩; exact absurd ⟨isPrefix_refl _, isPrefix_refl _⟩ (h _ hk)
    · simp only [scanNode, List.contains_iff_mem, hk, if_false, Scan.empty, flattenNode, List.mem_singleton, Prod.mk.injEq, and_true]
      constructor
      · rintro rfl
        refine ⟨rfl, fun k hkm hb => hk ?_⟩
        rw [isPrefix_antisymm hb.1 hb.2]; exact hkm
      · rintro ⟨rfl, _⟩; rfl
  | .symlink, p => by
    simp [scanNode, Scan.empty, flattenNode]
  | .dir cs, p => by
    by_cases hk : rel ∈ keep
    · simp only [scanNode, List.contains_iff_mem, hk, if_true, Scan.empty]
      constructor
      · intro h; cases h
      · rintro ⟨hm, h⟩
        exact absurd ⟨isPrefix_refl _, flattenNode_prefix rel (.dir cs) _ hm⟩ (h _ hk)
    · have hq : (scanNode keep isRoot rel (.dir cs)).filesQ = (scanList keep rel cs).filesQ := by
        simp only [scanNode, List.contains_iff_mem, hk, if_false]
        split <;> rfl
      rw [hq, filesQ_list keep rel cs p]
      simp only [flattenNode, List.mem_cons, Prod.mk.injEq, reduceCtorEq, and_false, false_or]
      constructor
      · rintro ⟨hm, h⟩
        refine ⟨hm, fun k hkm hb => ?_⟩
        by_cases he : k = rel
        · subst he; exact hk hkm
        · apply h k hkm
          refine ⟨?_, hb.2⟩
          obtain ⟨r, rfl⟩ := (isPrefix_iff _ _).mp hb.1
          cases r with
          | nil => simp at he
          | cons x r => exact (properPrefix_iff _ _).mpr ⟨x, r, rfl⟩
      · rintro ⟨hm, h⟩
        refine ⟨hm, fun k hkm hb => h k hkm ⟨?_, hb.2⟩⟩
        obtain ⟨x, r, rfl⟩ := (properPrefix_iff _ _).mp hb.1
        exact isPrefix_append_self _ _
theorem filesQ_list (keep : List Path) (rel : Path) : (cs : List (String × Node)) → ∀ p,
    p ∈ (scanList keep rel cs).filesQ ↔
      ((p, Kind.file) ∈ flattenList rel cs ∧ ∀ k ∈ keep, ¬ (properPrefix rel k = true ∧ isPrefix k p = true))
  | [], p => by simp [scanList, Scan.empty, flattenList]
  | (nm, c) :: rest, p => by
    simp only [scanList, merge_filesQ, List.mem_append, flattenList]
    rw [filesQ_node keep false (rel ++ [nm]) c p, filesQ_list keep rel rest p]
    constructor
    · rintro (⟨hm, h⟩ | ⟨hm, h⟩)
      · refine ⟨Or.inl hm, fun k hkm hb => h k hkm ⟨?_, hb.2⟩⟩
        exact below_child (flattenNode_prefix _ c _ hm) hb.1 hb.2
      · exact ⟨Or.inr hm, h⟩
    · rintro ⟨hm | hm, h⟩
      · left
        refine ⟨hm, fun k hkm hb => h k hkm ⟨child_proper rel nm hb.1, hb.2⟩⟩
      · exact Or.inr ⟨hm, h⟩
end


/-! ### well-formed trees: sibling names are distinct -/
mutual
def wfNode : Node → Prop
  | .dir cs => wfList cs
  | _ => True
def wfList : List (String × Node) → Prop
  | [] => True
  | (nm, c) :: rest => nm ∉ rest.map Prod.fst ∧ wfNode c ∧ wfList rest
end

/-- an entry makes its directory "needed": a symbolic link, or a kept path -/
def Pins (keep : List Path) (e : Path × Kind) : Prop := e.2 = .symlink ∨ e.1 ∈ keep

/-! ### the `needed` flag -/
mutual
theorem needed_node (keep : List Path) (isRoot : Bool) (rel : Path) : (n : Node) →
    ((scanNode keep isRoot rel n).needed = true ↔ ∃ e ∈ flattenNode rel n, Pins keep e)
  | .file sz => by
    by_cases hk : rel ∈ keep <;> simp [scanNode, hk, Scan.empty, flattenNode, Pins]
  | .symlink => by simp [scanNode, Scan.empty, flattenNode, Pins]
  | .dir cs => by
    by_cases hk : rel ∈ keep
    · simp only [scanNode, List.contains_iff_mem, hk, if_true, Scan.empty, true_iff]
      exact ⟨(rel, .dir), by simp [flattenNode], Or.inr hk⟩
    · have hq : (scanNode keep isRoot rel (.dir cs)).needed = (scanList keep rel cs).needed := by
        simp only [scanNode, List.contains_iff_mem, hk, if_false]
        split <;> rfl
      rw [hq, needed_list keep rel cs]
      simp only [flattenNode, List.mem_cons]
      constructor
      · rintro ⟨e, he, hp⟩; exact ⟨e, Or.inr he, hp⟩
      · rintro ⟨e, rfl | he, hp⟩
        · rcases hp with hp | hp
          · cases hp
          · exact absurd hp hk
        · exact ⟨e, he, hp⟩
theorem needed_list (keep : List Path) (rel : Path) : (cs : List (String × Node)) →
    ((scanList keep rel cs).needed = true ↔ ∃ e ∈ flattenList rel cs, Pins keep e)
  | [] => by simp [scanList, Scan.empty, flattenList]
  | (nm, c) :: rest => by
    simp only [scanList, merge_needed, Bool.or_eq_true, flattenList, List.mem_append]
    rw [needed_node keep false (rel ++ [nm]) c, needed_list keep rel rest]
    constructor
    · rintro (⟨e, he, hp⟩ | ⟨e, he, hp⟩)
      · exact ⟨e, Or.inl he, hp⟩
      · exact ⟨e, Or.inr he, hp⟩
    · rintro ⟨e, he | he, hp⟩
      · exact Or.inl ⟨e, he, hp⟩
      · exact Or.inr ⟨e, he, hp⟩
end

/-! ### the rmdir queue -/
mutual
/-- a directory is queued for removal by the scan of the subtree at `rel` iff it is a directory of that subtree (not the
    cleaner's root), nothing on the way from `rel` down to it is kept, and nothing at or below it is a symbolic link or kept -/
theorem foldersQ_node (keep : List Path) (isRoot : Bool) (rel : Path) : (n : Node) → wfNode n → ∀ d,
    (d ∈ (scanNode keep isRoot rel n).foldersQ ↔
      ((d, Kind.dir) ∈ flattenNode rel n ∧ (isRoot = true → d ≠ rel) ∧ (∀ k ∈ keep, ¬ Between rel k d) ∧
       ¬ ∃ e ∈ flattenNode rel n, isPrefix d e.1 = true ∧ Pins keep e))
  | .file sz, _, d => by
    by_cases hk : rel ∈ keep <;> simp [scanNode, hk, Scan.empty, flattenNode]
  | .symlink, _, d => by simp [scanNode, Scan.empty, flattenNode]
  | .dir cs, hwf, d => by
    have hwf' : wfList cs := by simpa [wfNode] using hwf
    by_cases hk : rel ∈ keep
    · simp only [scanNode, List.contains_iff_mem, hk, if_true, Scan.empty]
      constructor
      · intro h; cases h
      · rintro ⟨hm, _, h, _⟩
        exact absurd ⟨isPrefix_refl _, flattenNode_prefix rel (.dir cs) _ hm⟩ (h _ hk)
    · have hlist := foldersQ_list keep rel cs hwf' d
      have hneed := needed_list keep rel cs
      -- entries of the children lie strictly below rel
      have hbelow : ∀ e ∈ flattenList rel cs, isPrefix e.1 rel = false := by
        intro e he
        obtain ⟨nm, _, hp⟩ := flattenList_prefix rel cs e he
        exact longer_not_prefix hp
      have hq : d ∈ (scanNode keep isRoot rel (.dir cs)).foldersQ ↔
          (d ∈ (scanList keep rel cs).foldersQ ∨ (d = rel ∧ (scanList keep rel cs).needed = false ∧ isRoot = false)) := by
        simp only [scanNode, List.contains_iff_mem, hk, if_false]
        split
        · rename_i hc
          simp only [Bool.and_eq_true, Bool.not_eq_true'] at hc
          simp [hc.1, hc.2]
        · rename_i hc
          simp only [Bool.and_eq_true, Bool.not_eq_true', not_and, Bool.not_eq_false] at hc
          constructor
          · exact Or.inl
          · rintro (h | ⟨_, h1, h2⟩)
            · exact h
            · exact absurd (hc h1) (by simp [h2])
      rw [hq, hlist]
      simp only [flattenNode, List.mem_cons, Prod.mk.injEq, and_true]
      constructor
      · rintro (⟨hm, hkb, hpin⟩ | ⟨rfl, hn, hr⟩)
        · obtain ⟨nm, _, hp⟩ := flattenList_prefix rel cs _ hm
          have hdrel : isPrefix d rel = false := longer_not_prefix hp
          refine ⟨Or.inr hm, ?_, ?_, ?_⟩
          · rintro _ rfl; rw [isPrefix_refl] at hdrel; cases hdrel
          · intro k hkm hb
            by_cases he : k = rel
            · subst he; exact hk hkm
            · apply hkb k hkm
              refine ⟨?_, hb.2⟩
              obtain ⟨r, rfl⟩ := (isPrefix_iff _ _).mp hb.1
              cases r with
              | nil => simp at he
              | cons x r => exact (properPrefix_iff _ _).mpr ⟨x, r, rfl⟩
          · rintro ⟨e, rfl | he, hpe, hpin'⟩
            · simp only at hpe; rw [hdrel] at hpe; cases hpe
            · exact hpin ⟨e, he, hpe, hpin'⟩
        · refine ⟨Or.inl rfl, by simp [hr], ?_, ?_⟩
          · intro k hkm hb
            rw [isPrefix_antisymm hb.1 hb.2] at hk; exact hk hkm
          · rintro ⟨e, rfl | he, hpe, hpin'⟩
            · rcases hpin' with h | h
              · cases h
              · exact hk h
            · have : (scanList keep d cs).needed = true := hneed.mpr ⟨e, he, hpin'⟩
              rw [hn] at this; cases this
      · rintro ⟨rfl | hm, hroot, hkb, hpin⟩
        · right
          refine ⟨rfl, ?_, ?_⟩
          · cases hnn : (scanList keep d cs).needed with
            | false => rfl
            | true =>
              obtain ⟨e, he, hp⟩ := hneed.mp hnn
              exact absurd ⟨e, Or.inr he, flattenNode_prefix d (.dir cs) e (by simp [flattenNode, he]), hp⟩ hpin
          · cases isRoot with
            | false => rfl
            | true => exact absurd rfl (hroot rfl)
        · left
          refine ⟨hm, fun k hkm hb => hkb k hkm ⟨?_, hb.2⟩, fun ⟨e, he, hpe, hp⟩ => hpin ⟨e, Or.inr he, hpe, hp⟩⟩
          obtain ⟨x, r, rfl⟩ := (properPrefix_iff _ _).mp hb.1
          exact isPrefix_append_self _ _
theorem foldersQ_list (keep : List Path) (rel : Path) : (cs : List (String × Node)) → wfList cs → ∀ d,
    (d ∈ (scanList keep rel cs).foldersQ ↔
      ((d, Kind.dir) ∈ flattenList rel cs ∧ (∀ k ∈ keep, ¬ (properPrefix rel k = true ∧ isPrefix k d = true)) ∧
       ¬ ∃ e ∈ flattenList rel cs, isPrefix d e.1 = true ∧ Pins keep e))
  | [], _, d => by simp [scanList, Scan.empty, flattenList]
  | (nm, c) :: rest, hwf, d => by
    obtain ⟨hnm, hwc, hwr⟩ : nm ∉ rest.map Prod.fst ∧ wfNode c ∧ wfList rest := by simpa [wfList] using hwf
    simp only [scanList, merge_foldersQ, List.mem_append, flattenList]
    rw [foldersQ_node keep false (rel ++ [nm]) c hwc d, foldersQ_list keep rel rest hwr d]
    constructor
    · rintro (⟨hm, _, hkb, hpin⟩ | ⟨hm, hkb, hpin⟩)
      · have hd := flattenNode_prefix _ c _ hm
        refine ⟨Or.inl hm, fun k hkm hb => hkb k hkm ⟨below_child hd hb.1 hb.2, hb.2⟩, ?_⟩
        rintro ⟨e, he | he, hpe, hp⟩
        · exact hpin ⟨e, he, hpe, hp⟩
        · obtain ⟨n2, hn2, hp2⟩ := flattenList_prefix rel rest e he
          have : nm = n2 := child_name_unique (isPrefix_trans hd hpe) hp2
          subst this; exact hnm hn2
      · obtain ⟨n2, hn2, hp2⟩ := flattenList_prefix rel rest _ hm
        refine ⟨Or.inr hm, hkb, ?_⟩
        rintro ⟨e, he | he, hpe, hp⟩
        · have : nm = n2 := child_name_unique (flattenNode_prefix _ c e he) (isPrefix_trans hp2 hpe)
          subst this; exact hnm hn2
        · exact hpin ⟨e, he, hpe, hp⟩
    · rintro ⟨hm | hm, hkb, hpin⟩
      · left
        refine ⟨hm, by simp, fun k hkm hb => hkb k hkm ⟨child_proper rel nm hb.1, hb.2⟩, fun ⟨e, he, hpe, hp⟩ => hpin ⟨e, Or.inl he, hpe, hp⟩⟩
      · right
        exact ⟨hm, hkb, fun ⟨e, he, hpe, hp⟩ => hpin ⟨e, Or.inr he, hpe, hp⟩⟩
end


/-! ### in a well-formed tree a path names one entry -/
mutual
theorem flattenNode_unique (rel : Path) : (n : Node) → wfNode n → ∀ e1 ∈ flattenNode rel n, ∀ e2 ∈ flattenNode rel n, e1.1 = e2.1 → e1 = e2
  | .file _, _, e1, h1, e2, h2, _ => by
    simp only [flattenNode, List.mem_singleton] at h1 h2; rw [h1, h2]
  | .symlink, _, e1, h1, e2, h2, _ => by
    simp only [flattenNode, List.mem_singleton] at h1 h2; rw [h1, h2]
  | .dir cs, hwf, e1, h1, e2, h2, he => by
    have hwf' : wfList cs := by simpa [wfNode] using hwf
    simp only [flattenNode, List.mem_cons] at h1 h2
    have hlong : ∀ e ∈ flattenList rel cs, e.1 ≠ rel := by
      intro e hm hr
      obtain ⟨nm, _, hp⟩ := flattenList_prefix rel cs e hm
      have := longer_not_prefix hp
      rw [hr, isPrefix_refl] at this; cases this
    rcases h1 with rfl | h1 <;> rcases h2 with rfl | h2
    · rfl
    · exact absurd he.symm (hlong _ h2)
    · exact absurd he (hlong _ h1)
    · exact flattenList_unique rel cs hwf' e1 h1 e2 h2 he
theorem flattenList_unique (rel : Path) : (cs : List (String × Node)) → wfList cs → ∀ e1 ∈ flattenList rel cs, ∀ e2 ∈ flattenList rel cs, e1.1 = e2.1 → e1 = e2
  | [], _, e1, h1, _, _, _ => by simp [flattenList] at h1
  | (nm, c) :: rest, hwf, e1, h1, e2, h2, he => by
    obtain ⟨hnm, hwc, hwr⟩ : nm ∉ rest.map Prod.fst ∧ wfNode c ∧ wfList rest := by simpa [wfList] using hwf
    simp only [flattenList, List.mem_append] at h1 h2
    have hcross : ∀ a ∈ flattenNode (rel ++ [nm]) c, ∀ b ∈ flattenList rel rest, a.1 ≠ b.1 := by
      intro a ha b hb hab
      obtain ⟨n2, hn2, hp2⟩ := flattenList_prefix rel rest b hb
      have hpa := flattenNode_prefix _ c a ha
      rw [hab] at hpa
      have : nm = n2 := child_name_unique hpa hp2
      subst this; exact hnm hn2
    rcases h1 with h1 | h1 <;> rcases h2 with h2 | h2
    · exact flattenNode_unique _ c hwc e1 h1 e2 h2 he
    · exact absurd he (hcross _ h1 _ h2)
    · exact absurd he.symm (hcross _ h2 _ h1)
    · exact flattenList_unique rel rest hwr e1 h1 e2 h2 he
end


/-! ### ancestors of an entry are directory entries -/
mutual
theorem flattenNode_ancestor (rel : Path) : (n : Node) → ∀ e ∈ flattenNode rel n, ∀ k, isPrefix rel k = true → properPrefix k e.1 = true →
    (k, Kind.dir) ∈ flattenNode rel n
  | .file _, e, he, k, h1, h2 => by
    simp only [flattenNode, List.mem_singleton] at he; subst he
    have := isPrefix_antisymm h1 (proper_isPrefix' h2)
    subst this
    obtain ⟨x, r, hr⟩ := (properPrefix_iff _ _).mp h2
    have : rel.length = (rel ++ x :: r).length := by rw [← hr]
    simp at this
  | .symlink, e, he, k, h1, h2 => by
    simp only [flattenNode, List.mem_singleton] at he; subst he
    have := isPrefix_antisymm h1 (proper_isPrefix' h2)
    subst this
    obtain ⟨x, r, hr⟩ := (properPrefix_iff _ _).mp h2
    have : rel.length = (rel ++ x :: r).length := by rw [← hr]
    simp at this
  | .dir cs, e, he, k, h1, h2 => by
    simp only [flattenNode, List.mem_cons] at he ⊢
    rcases he with rfl | he
    · -- e is the directory itself: k would be a proper prefix of rel and an extension of it
      have := isPrefix_antisymm h1 (proper_isPrefix' h2)
      subst this
      obtain ⟨x, r, hr⟩ := (properPrefix_iff _ _).mp h2
      have : rel.length = (rel ++ x :: r).length := by rw [← hr]
      simp at this
    · by_cases hk : k = rel
      · left; rw [hk]
      · right
        have hpp : properPrefix rel k = true := by
          obtain ⟨r, rfl⟩ := (isPrefix_iff _ _).mp h1
          cases r with
          | nil => simp at hk
          | cons x r => exact (properPrefix_iff _ _).mpr ⟨x, r, rfl⟩
        exact flattenList_ancestor rel cs e he k hpp h2
theorem flattenList_ancestor (rel : Path) : (cs : List (String × Node)) → ∀ e ∈ flattenList rel cs, ∀ k, properPrefix rel k = true →
    properPrefix k e.1 = true → (k, Kind.dir) ∈ flattenList rel cs
  | [], e, he, _, _, _ => by simp [flattenList] at he
  | (nm, c) :: rest, e, he, k, h1, h2 => by
    simp only [flattenList, List.mem_append] at he ⊢
    rcases he with he | he
    · left
      have hpe := flattenNode_prefix (rel ++ [nm]) c e he
      exact flattenNode_ancestor (rel ++ [nm]) c e he k (below_child hpe h1 (proper_isPrefix' h2)) h2
    · right
      exact flattenList_ancestor rel rest e he k h1 h2
end


/-! ### order of the rmdir queue: nothing that comes later lies below something that comes earlier -/
def NotAbove (a b : Path) : Prop := properPrefix a b = false

theorem notAbove_of_longer {rel a : Path} {nm : String} (h : isPrefix (rel ++ [nm]) a = true) : NotAbove a rel := by
  unfold NotAbove
  cases hp : properPrefix a rel with
  | false => rfl
  | true =>
    have := longer_not_prefix h
    rw [proper_isPrefix' hp] at this; cases this

mutual
theorem foldersQ_pairwise_node (keep : List Path) (isRoot : Bool) (rel : Path) : (n : Node) → wfNode n →
    (scanNode keep isRoot rel n).foldersQ.Pairwise NotAbove
  | .file sz, _ => by
    by_cases hk : rel ∈ keep <;> simp [scanNode, hk, Scan.empty]
  | .symlink, _ => by simp [scanNode, Scan.empty]
  | .dir cs, hwf => by
    have hwf' : wfList cs := by simpa [wfNode] using hwf
    by_cases hk : rel ∈ keep
    · simp [scanNode, hk, Scan.empty]
    · have hl := foldersQ_pairwise_list keep rel cs hwf'
      have hbelow : ∀ a ∈ (scanList keep rel cs).foldersQ, NotAbove a rel := by
        intro a ha
        have hm := ((foldersQ_list keep rel cs hwf' a).mp ha).1
        obtain ⟨nm, _, hp⟩ := flattenList_prefix rel cs _ hm
        exact notAbove_of_longer hp
      simp only [scanNode, List.contains_iff_mem, hk, if_false]
      split
      · simp only
        rw [List.pairwise_append]
        exact ⟨hl, List.pairwise_singleton _ _, fun a ha b hb => by
          simp only [List.mem_singleton] at hb; subst hb; exact hbelow a ha⟩
      · exact hl
theorem foldersQ_pairwise_list (keep : List Path) (rel : Path) : (cs : List (String × Node)) → wfList cs →
    (scanList keep rel cs).foldersQ.Pairwise NotAbove
  | [], _ => by simp [scanList, Scan.empty]
  | (nm, c) :: rest, hwf => by
    obtain ⟨hnm, hwc, hwr⟩ : nm ∉ rest.map Prod.fst ∧ wfNode c ∧ wfList rest := by simpa [wfList] using hwf
    simp only [scanList, merge_foldersQ]
    rw [List.pairwise_append]
    refine ⟨foldersQ_pairwise_node keep false (rel ++ [nm]) c hwc, foldersQ_pairwise_list keep rel rest hwr, ?_⟩
    intro a ha b hb
    have hma := ((foldersQ_node keep false (rel ++ [nm]) c hwc a).mp ha).1
    have hmb := ((foldersQ_list keep rel rest hwr b).mp hb).1
    have hpa := flattenNode_prefix _ c _ hma
    obtain ⟨n2, hn2, hpb⟩ := flattenList_prefix rel rest _ hmb
    unfold NotAbove
    cases hp : properPrefix a b with
    | false => rfl
    | true =>
      have : nm = n2 := child_name_unique (isPrefix_trans hpa (proper_isPrefix' hp)) hpb
      subst this; exact absurd hn2 hnm
end

/-! ### executing the rmdir queue -/
def rmdirStep (cur : List (Path × Kind)) (d : Path) : Option (List (Path × Kind)) :=
  if cur.any (fun e => properPrefix d e.1) then none else some (cur.filter (fun e => e.1 ≠ d))

/-- if every entry below a queued directory is itself queued, and no queued directory comes before one that lies below it,
    the queue runs through and removes exactly the queued paths -/
theorem rmdir_go (fs1 : List (Path × Kind)) (q done : List Path)
    (hpw : (done ++ q).Pairwise NotAbove)
    (hclosed : ∀ d ∈ done ++ q, ∀ e ∈ fs1, properPrefix d e.1 = true → e.1 ∈ done ++ q) :
    q.foldlM rmdirStep (fs1.filter (fun e => !(done.contains e.1))) = some (fs1.filter (fun e => !((done ++ q).contains e.1))) := by
  induction q generalizing done with
  | nil => simp
  | cons d q ih =>
    have hnone : (fs1.filter (fun e => !(done.contains e.1))).any (fun e => properPrefix d e.1) = false := by
      rw [List.any_eq_false]
      intro e he hpp
      simp only [List.mem_filter, Bool.not_eq_true'] at he
      have hnd : e.1 ∉ done := by
        intro hm
        have : done.contains e.1 = true := List.contains_iff_mem.mpr hm
        rw [he.2] at this; cases this
      have hin := hclosed d (by simp) e he.1 hpp
      rcases List.mem_append.mp hin with h | h
      · exact hnd h
      · rcases List.mem_cons.mp h with h | h
        · -- e.1 = d: d is no proper prefix of itself
          obtain ⟨x, r, hr⟩ := (properPrefix_iff _ _).mp hpp
          have : d.length = (d ++ x :: r).length := by rw [← hr, h]
          simp at this
        · -- e.1 comes later in the queue although it lies below d
          have hp2 : (d :: q).Pairwise NotAbove := (List.pairwise_append.mp hpw).2.1
          have := (List.pairwise_cons.mp hp2).1 e.1 h
          unfold NotAbove at this
          rw [this] at hpp; cases hpp
    simp only [List.foldlM_cons, rmdirStep, hnone, Bool.false_eq_true, if_false, bind, Option.bind]
    have hcur : (fs1.filter (fun e => !(done.contains e.1))).filter (fun e => e.1 ≠ d) =
        fs1.filter (fun e => !((done ++ [d]).contains e.1)) := by
      rw [List.filter_filter]
      apply List.filter_congr
      intro e _
      simp only [ne_eq, decide_not, List.contains_append, List.contains_cons, List.contains_nil, Bool.or_false, Bool.not_or]
      by_cases hed : e.1 = d
      · simp [hed]
      · have : (e.1 == d) = false := by simpa using hed
        simp [hed, this]
    have := ih (done ++ [d]) (by simpa [List.append_assoc] using hpw) (by simpa [List.append_assoc] using hclosed)
    simp only [List.append_assoc, List.singleton_append] at this
    rw [← this]
    congr 1

theorem prefix_comparable : ∀ (a b p : Path), isPrefix a p = true → isPrefix b p = true →
    isPrefix a b = true ∨ properPrefix b a = true
  | [], _, _, _, _ => Or.inl rfl
  | x :: xs, [], _, _, _ => Or.inr ((properPrefix_iff _ _).mpr ⟨x, xs, rfl⟩)
  | x :: xs, y :: ys, [], ha, _ => by simp [isPrefix] at ha
  | x :: xs, y :: ys, z :: zs, ha, hb => by
    simp only [isPrefix, Bool.and_eq_true, beq_iff_eq] at ha hb
    obtain ⟨rfl, ha⟩ := ha
    obtain ⟨rfl, hb⟩ := hb
    rcases prefix_comparable xs ys zs ha hb with h | h
    · left; simp [isPrefix, h]
    · right
      obtain ⟨w, t, ht⟩ := (properPrefix_iff _ _).mp h
      exact (properPrefix_iff _ _).mpr ⟨w, t, by rw [ht]; rfl⟩

end Clean
end AptMirror
