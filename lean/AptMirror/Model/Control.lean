/-
  Model of the orchestration logic of RepositoryMirror.mirror(), download_release_files()
  and APTMirror.run()'s exit status (apt_mirror/apt_mirror.py), over abstract stage outcomes.

  A stage outcome is what the stage's Downloader reports (`has_errors()`, `has_missing()`), what
  `validate_release_files` says in each fetch round, and whether `get_metadata_files` is empty.
  The correspondence harness feeds the outcomes observed in a real run and compares the
  stage sequence and result predicted here with what the real code did.
-/
namespace AptMirror

/-- outcome of one release-file fetch round -/
structure Round where
  valid     : Bool      -- validate_release_files did not raise
  hasErrors : Bool      -- Downloader.has_errors() after this round's download()
deriving DecidableEq, Repr, Inhabited

structure RepoPlan where
  retries : Nat                 -- Config.release_files_retries (already max 1 _)
  rounds  : Nat → Round         -- outcome of round i (0-based), an oracle
  metadataEmpty : Bool          -- get_metadata_files returned nothing
  indexErrors : Bool            -- has_errors() after the index stage (cumulative counter)
  indexMissing : Bool
  poolErrors : Bool
  poolMissing : Bool
  clean : Bool                  -- repository.clean

inductive Stage
  | releaseRound (i : Nat)
  | indices
  | skelClean
  | pool
  | publish
  | clean
deriving DecidableEq, Repr, Inhabited

/-- `download_release_files`: up to `retries` rounds; returns (rounds run, some errorFlag) or none on failure.
    `fuel` counts the rounds still allowed (`tries` in the code). -/
def releaseLoop (rounds : Nat → Round) : (fuel : Nat) → (i : Nat) → Nat × Option Bool
  | 0, i => (i, none)
  | fuel + 1, i =>
    if (rounds i).valid then (i + 1, some (rounds i).hasErrors)
    else if fuel = 0 then (i + 1, none)
    else releaseLoop rounds fuel (i + 1)

def roundStages (n : Nat) : List Stage := (List.range n).map Stage.releaseRound

/-- `RepositoryMirror.mirror()`: the stage sequence it executes and its boolean result. -/
def mirrorControl (p : RepoPlan) : List Stage × Bool :=
  match releaseLoop p.rounds (max 1 p.retries) 0 with
  | (n, none) => (roundStages n, false)
  | (n, some relErr) =>
    if p.metadataEmpty then (roundStages n, false)
    else
      let e1 := relErr || p.indexErrors || p.indexMissing
      let e2 := e1 || p.poolErrors || p.poolMissing
      let pre := roundStages n ++ [.indices, .skelClean, .pool]
      if e2 then (pre, false)
      else (pre ++ [.publish] ++ (if p.clean then [.clean] else []), true)

/-- `APTMirror.run()`: 2 without repositories, 1 if any repository failed, else 0 -/
def exitStatus (results : List Bool) : Nat :=
  if results.isEmpty then 2 else if results.all id then 0 else 1

def runControl (plans : List RepoPlan) : Nat := exitStatus (plans.map fun p => (mirrorControl p).2)

end AptMirror
