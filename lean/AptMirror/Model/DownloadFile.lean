import AptMirror.Model.FS
/-
  Model of apt_mirror/download/download_file.py
-/
namespace AptMirror

inductive Algo | sha512 | sha256 | sha1 | md5
deriving DecidableEq, Repr, Inhabited

def Algo.all : List Algo := [.sha512, .sha256, .sha1, .md5]   -- HashType enum order

/-- `HashType.value`, the directory name used under by-hash/ and the Release field name. -/
def Algo.value : Algo → String
  | .sha512 => "SHA512" | .sha256 => "SHA256" | .sha1 => "SHA1" | .md5 => "MD5Sum"

inductive Comp | xz | gz | bz2 | none
deriving DecidableEq, Repr, Inhabited

def Comp.all : List Comp := [.xz, .gz, .bz2, .none]          -- FileCompression enum order

structure Variant where
  path      : Path
  comp      : Comp
  size      : Nat
  hashes    : List (Algo × String)     -- dict in insertion order
  useByHash : Bool
deriving DecidableEq, Repr, Inhabited

/-- `Path.parent` for a relative path (parent of a one-component path is `.` = []). -/
def parentOf (p : Path) : Path := p.dropLast

def Variant.hashedPath (v : Variant) (a : Algo) (h : String) : Path :=
  parentOf v.path ++ ["by-hash", a.value, h]

/-- first algorithm in enum order that the variant has -/
def firstHash (hs : List (Algo × String)) : List Algo → Option (Algo × String)
  | [] => none
  | a :: as => match hs.lookup a with
    | some h => some (a, h)
    | none => firstHash hs as

def Variant.sourcePath (v : Variant) : Path :=
  if v.useByHash then
    match firstHash v.hashes Algo.all with
    | some (a, h) => v.hashedPath a h
    | none => v.path
  else v.path

def Variant.allPaths (v : Variant) : List Path :=
  if v.useByHash then v.hashes.map (fun ah => v.hashedPath ah.1 ah.2) ++ [v.path]
  else [v.path]

structure DFile where
  path          : Path
  variants      : List Variant          -- dict keyed by comp, insertion order; at most one per comp
  checkSize     : Bool
  ignoreErrors  : Bool
  ignoreMissing : Bool
deriving DecidableEq, Repr, Inhabited

def DFile.variantOf (f : DFile) (c : Comp) : Option Variant := f.variants.find? (·.comp = c)

/-- `iter_variants`: enum order, not insertion order -/
def DFile.iterVariants (f : DFile) : List Variant := Comp.all.filterMap f.variantOf

/-- `size` property: size of the first variant in enum order (the code raises on an empty dict;
    `__post_init__` guarantees non-emptiness) -/
def DFile.size (f : DFile) : Nat := match f.iterVariants with | v :: _ => v.size | [] => 0

/-- all alias paths of all variants in dict (insertion) order -/
def DFile.allPaths (f : DFile) : List Path := f.variants.flatMap Variant.allPaths

/-- dict.update on an insertion ordered assoc list -/
def updHash (hs : List (Algo × String)) (a : Algo) (h : String) : List (Algo × String) :=
  if hs.any (·.1 = a) then hs.map (fun x => if x.1 = a then (a, h) else x) else hs ++ [(a, h)]

/-- `path.suffix` of the last component as pathlib computes it: the part from the last dot,
    unless the dot is the first or the last character of the name. -/
def suffixChars (name : List Char) : List Char :=
  let rec go (rest : List Char) (idx : Nat) (best : Option Nat) : Option Nat :=
    match rest with
    | [] => best
    | c :: cs => go cs (idx + 1) (if c = '.' then some idx else best)
  match go name 0 none with
  | some i => if 0 < i ∧ i + 1 < name.length then name.drop i else []
  | none => []

def suffixOf (p : Path) : String :=
  match p.getLast? with
  | some n => String.ofList (suffixChars n.toList)
  | none => ""

def compOfSuffix (s : String) : Comp :=
  if s = ".xz" then .xz else if s = ".gz" then .gz else if s = ".bz2" then .bz2 else .none

/-- `DownloadFile.uncompressed_path` -/
def uncompressedPath (p : Path) : Path :=
  match p.getLast? with
  | some n =>
    let sfx := suffixOf p
    if sfx = ".xz" ∨ sfx = ".gz" ∨ sfx = ".bz2" then
      p.dropLast ++ [String.ofList (n.toList.take (n.toList.length - sfx.toList.length))]
    else p
  | none => p

/-- `add_compression_variant` (hash is optional). -/
def DFile.addVariant (f : DFile) (path : Path) (size : Nat) (hash : Option (Algo × String))
    (useByHash : Bool) : DFile :=
  let c := compOfSuffix (suffixOf path)
  let f1 := if c = .none then { f with path := path } else f
  let hs0 : List (Algo × String) := match hash with | some ah => [ah] | none => []
  match f1.variants.find? (·.comp = c) with
  | some _ =>
    { f1 with variants := f1.variants.map fun v =>
        if v.comp = c then
          { v with path := path, size := size, useByHash := useByHash,
                   hashes := match hash with | some (a, h) => updHash v.hashes a h | none => v.hashes }
        else v }
  | none =>
    { f1 with variants := f1.variants ++
        [{ path := path, comp := c, size := size, hashes := hs0, useByHash := useByHash }] }

/-- `DownloadFile.from_path` including `__post_init__`'s placeholder variant of size 0. -/
def DFile.fromPath (p : Path) (checkSize ignoreMissing : Bool) : DFile :=
  DFile.addVariant
    { path := p, variants := [], checkSize := checkSize, ignoreErrors := false,
      ignoreMissing := ignoreMissing } p 0 none false

/-- `DownloadFile.from_hashed_path` (after fix ab648fb: the size-0 placeholder variant is dropped) -/
def DFile.fromHashedPath (p : Path) (size : Nat) (a : Algo) (h : String) (useByHash : Bool) : DFile :=
  ({ DFile.fromPath (uncompressedPath p) false false with variants := [] }).addVariant p size (some (a, h)) useByHash

end AptMirror
