import AptMirror.Model.Download
/-
  Interleaving model of concurrent transfers (Downloader.download creates one task per file; asyncio runs a
  task atomically between awaits).  State is *keyed*: one slot per target path (hard links are slots with
  the same link-group id), one response script and request counter per URL, one private record per task.
  A task step performs the next attempt of that task — `attempt` of Model/Download.lean re-expressed as a
  pure function from the task's *view* of the state to a *patch* of it.  A schedule is the list of task ids
  in the order their steps are run.
-/
namespace AptMirror
namespace Interleave

structure KFile where
  size : Nat
  mtime : Option Int
  tag : Nat
  grp : Path × Nat        -- link group: (path that was written, its generation)
deriving DecidableEq, Repr

structure Slot where
  gen : Nat               -- how many times this name was (re)written
  cur : Option KFile
deriving DecidableEq, Repr

/-- private state of one `download_file` coroutine -/
structure Task where
  file : DFile
  vi : Nat                -- index into iterVariants
  ai : Nat                -- index into allPaths of that variant
  tries : Nat
  err : Bool
  finished : Bool
  reported : Option Variant
  unmodified : Bool       -- reported through the unmodified short-cut
  bytes : Nat
  outcome : Nat           -- 0 running, 1 obtained, 2 ignored, 3 missing, 4 failed
deriving DecidableEq, Repr

structure KState where
  files : Path → Slot
  scripts : Path → List Resp
  reqs : Path → Nat
  tasks : Nat → Task

def newTask (f : DFile) : Task :=
  { file := f, vi := 0, ai := 0, tries := 10, err := false, finished := false, reported := none, unmodified := false,
    bytes := 0, outcome := 0 }

def curVariant (t : Task) : Option Variant := t.file.iterVariants[t.vi]?
def curAlias (t : Task) : Option Path := (curVariant t).bind fun v => v.allPaths[t.ai]?

/-- move to the next alias / variant, or finish with the final classification of `download_file` -/
def Task.advance (t : Task) : Task :=
  match curVariant t with
  | none => t
  | some v =>
    if t.ai + 1 < v.allPaths.length then { t with ai := t.ai + 1, tries := 10 }
    else if t.vi + 1 < t.file.iterVariants.length then { t with vi := t.vi + 1, ai := 0, tries := 10 }
    else
      let oc := if t.file.ignoreErrors then 2 else if t.file.ignoreMissing && !t.err then 2 else if !t.err then 3 else 4
      { t with finished := true, outcome := oc }

def needUpdateK (s : Slot) (size : Option Nat) (date : Option Int) : Bool :=
  match s.cur, date, size with
  | some d, some dt, some sz => !(sz ≠ 0 ∧ d.mtime = some dt ∧ d.size = sz)
  | _, _, _ => true

/-- what a task reads -/
structure View where
  task : Task
  script : List Resp          -- script of the current alias URL
  nreq : Nat
  slots : List (Path × Slot)  -- the slots of the current variant's target names (target of the alias first)
deriving Repr

/-- what a task writes -/
structure Patch where
  task : Task
  script : List Resp
  nreq : Nat
  slots : List (Path × Slot)

def slotOf (slots : List (Path × Slot)) (p : Path) : Slot := (slots.lookup p).getD { gen := 0, cur := none }

/-- one attempt as a pure function of the view (branch order as in `attempt`) -/
def localStep (root : Path) (w : View) : Patch :=
  let t := w.task
  match curVariant t, curAlias t with
  | some v, some src =>
    let target := root ++ src
    let (k, rest) := dropRetries w.script
    let (resp, rest') : Resp × List Resp := match rest with | [] => (.missing, []) | r :: rs => (r, rs)
    let nreq := w.nreq + k + 1
    let again := fun (slots : List (Path × Slot)) (e : Bool) =>
      let t1 := { t with tries := t.tries - 1, err := e }
      ({ task := if t1.tries = 0 then t1.advance else t1, script := rest', nreq := nreq, slots := slots } : Patch)
    let stop : Patch := { task := t.advance, script := rest', nreq := nreq, slots := w.slots }
    let linkAll := fun (slots : List (Path × Slot)) (kf : KFile) =>
      slots.map fun ps => (ps.1, ({ gen := ps.2.gen, cur := some kf } : Slot))
    match resp with
    | .retry => again w.slots t.err
    | .missing => if t.file.ignoreErrors ∨ t.file.ignoreMissing then stop else again w.slots t.err
    | .error => if t.file.ignoreErrors then stop else again w.slots true
    | .ok announced date body abort tag =>
      if v.size > 0 ∧ sizeTruthy announced ∧ announced ≠ some v.size then
        (if t.file.ignoreErrors then stop else again w.slots true)
      else if sizeTruthy announced ∧ !needUpdateK (slotOf w.slots target) announced date then
        match (slotOf w.slots target).cur with
        | some kf =>
          { task := { t with finished := true, reported := some v, unmodified := true, bytes := announced.getD 0, outcome := 1 },
            script := rest', nreq := nreq, slots := linkAll w.slots kf }
        | none => stop
      else
        let g := (slotOf w.slots target).gen + 1
        let kf : KFile := { size := body, mtime := none, tag := tag, grp := (target, g) }
        let written := w.slots.map fun ps => if ps.1 = target then (ps.1, ({ gen := g, cur := some kf } : Slot)) else ps
        if abort then again written true
        else if v.size > 0 ∧ v.size ≠ body then again written true
        else
          let kf' := { kf with mtime := date }
          let written' := w.slots.map fun ps => if ps.1 = target then (ps.1, ({ gen := g, cur := some kf' } : Slot)) else ps
          { task := { t with finished := true, reported := some v, bytes := body, outcome := 1 },
            script := rest', nreq := nreq, slots := linkAll written' kf' }
  | _, _ => { task := { t with finished := true, outcome := 4 }, script := w.script, nreq := w.nreq, slots := w.slots }

/-- names the current attempt of a task may touch: target of the alias and all aliases of the variant -/
def curTargets (root : Path) (t : Task) : List Path :=
  match curVariant t, curAlias t with
  | some v, some src => (root ++ src) :: v.allPaths.map (root ++ ·)
  | _, _ => []

def view (root : Path) (i : Nat) (src : Path) (s : KState) : View :=
  let t := s.tasks i
  { task := t, script := s.scripts src, nreq := s.reqs src, slots := (curTargets root t).map fun p => (p, s.files p) }

def applyPatch (s : KState) (i : Nat) (url : Path) (p : Patch) : KState :=
  { files := fun q => match p.slots.lookup q with | some sl => sl | none => s.files q
    scripts := fun u => if u = url then p.script else s.scripts u
    reqs := fun u => if u = url then p.nreq else s.reqs u
    tasks := fun j => if j = i then p.task else s.tasks j }

/-- one attempt of task `i` (no-op when the task is finished) -/
def taskStep (root : Path) (i : Nat) (s : KState) : KState :=
  if (s.tasks i).finished then s
  else match curAlias (s.tasks i) with
    | some src => applyPatch s i src (localStep root (view root i src s))
    | none => { s with tasks := fun j => if j = i then { s.tasks i with finished := true, outcome := 4 } else s.tasks j }

def exec (root : Path) (sched : List Nat) (s : KState) : KState := sched.foldl (fun st i => taskStep root i st) s

/-- static footprint of a task: every name and every URL any of its attempts may touch -/
def fpFiles (root : Path) (f : DFile) : List Path := f.iterVariants.flatMap fun v => v.allPaths.map (root ++ ·)
def fpUrls (f : DFile) : List Path := f.iterVariants.flatMap Variant.allPaths

end Interleave
end AptMirror
