import AptMirror.Model.Release
/-
  Model of PackagesParser / SourcesParser `_do_parse_index` (apt_mirror/repository.py): the two line state
  machines, literally (prefix tests on raw lines, per-stanza reset, synthetic final blank line), and of
  PackageFilter.package_allowed (apt_mirror/filter.py).
  A line is a `List Char` including its terminating '\n' when it has one (as `readline` returns it).
-/
namespace AptMirror
namespace Index
open Str

/-- `iter(fp.readline, b"")` -/
def splitLines : S → List S
  | [] => []
  | s =>
    let rec go (cur : S) (acc : List S) : S → List S
      | [] => (if cur.isEmpty then acc else cur.reverse :: acc).reverse
      | c :: cs => if c = '\n' then go [] (('\n' :: cur).reverse :: acc) cs else go (c :: cur) acc cs
    go [] [] s

/-- `line.decode().strip().split(":", maxsplit=1)[1].strip()` (none = IndexError) -/
def lineValue (line : S) : Option S :=
  let l := Cfg.strip line
  match l.dropWhile (· ≠ ':') with
  | [] => none
  | _ :: v => some (Cfg.strip v)

/-- `Path(s).parts` -/
def pathParts (s : S) : Path :=
  let comps := ((splitOn '/' s).filter fun c => !c.isEmpty && c ≠ ['.']).map String.ofList
  if s.take 2 = ['/', '/'] && s.take 3 ≠ ['/', '/', '/'] then "//" :: comps
  else if s.head? = some '/' then "/" :: comps
  else comps

structure Filter where
  includeSource : List S
  excludeSource : List S
  includeBinary : List S
  excludeBinary : List S
deriving Repr

/-- `PackageFilter.package_allowed(source_name, package_name)` -/
def Filter.allowed (f : Filter) (sourceName : S) (packageName : Option S) : Bool :=
  if !f.includeSource.isEmpty && !f.includeSource.contains sourceName then false
  else if !f.excludeSource.isEmpty && f.excludeSource.contains sourceName then false
  else match packageName with
    | some p =>
      if p.isEmpty then true
      else if !f.includeBinary.isEmpty && !f.includeBinary.contains p then false
      else if !f.excludeBinary.isEmpty && f.excludeBinary.contains p then false
      else true
    | none => true

/-- single underscores between digits (`int("1_000")`), as Python's integer grammar allows -/
def underscoresOK : S → Bool
  | [] => true
  | '_' :: '_' :: _ => false
  | ['_'] => false
  | _ :: r => underscoresOK r

/-- `int(s)`: decimal digits with optional sign, surrounding blanks and single underscores between digits (none = ValueError) -/
def parseInt (s : S) : Option Int :=
  let cs := Cfg.strip s
  let (neg, ds) : Bool × S := match cs with | '-' :: r => (true, r) | '+' :: r => (false, r) | r => (false, r)
  if ds.isEmpty || ds.head? = some '_' || !underscoresOK ds || !ds.all (fun c => c.isDigit || c = '_') then none
  else
    let n : Nat := (ds.filter (· ≠ '_')).foldl (fun n c => n * 10 + (c.toNat - '0'.toNat)) 0
    some (if neg then -(n : Int) else (n : Int))

/-- one derived pool file -/
structure PoolFile where
  path : Path
  size : Int
  ignoreErrors : Bool
deriving DecidableEq, Repr

inductive Err | indexError | valueError
deriving DecidableEq, Repr

/-- the queue entry `PackagesParser` builds for a derived pool file: `DownloadFile.from_path(path, check_size=True)`, then
    `add_compression_variant(path, size, ...)` (which replaces the placeholder variant of the same suffix), `ignore_errors` set -/
def poolDFile (pf : PoolFile) : DFile :=
  { ((DFile.fromPath pf.path true false).addVariant pf.path pf.size.toNat none false) with ignoreErrors := pf.ignoreErrors }

/-- insertion into `_pool_files` (a dict keyed by path) -/
def putPool (pool : List PoolFile) (f : PoolFile) : List PoolFile :=
  if pool.any (·.path = f.path) then pool.map (fun x => if x.path = f.path then f else x) else pool ++ [f]

structure PState where
  package : Option S := none
  source : Option S := none
  filePath : Option Path := none
  size : Int := 0
  hasHash : Bool := false
deriving Repr

/-- `self._source if self._source else self._package` -/
def PState.srcName (s : PState) (pkg : S) : S :=
  match s.source with | some x => if x.isEmpty then pkg else x | none => pkg

def hashPrefixes : List S := ["MD5Sum:".toList, "SHA1:".toList, "SHA256:".toList, "SHA512:".toList]

/-- one line of `PackagesParser._do_parse_index` -/
def packagesLine (flt : Filter) (ignored : List Path) (st : PState × List PoolFile) (line : S) :
    Except Err (PState × List PoolFile) :=
  let (s, pool) := st
  if line.head? ≠ some '\n' then
    if startsWith line "Package:".toList then
      match lineValue line with | some v => pure ({ s with package := some v }, pool) | none => throw .indexError
    else if startsWith line "Source:".toList then
      match lineValue line with
      | some v => match Cfg.splitWs v with
        | w :: _ => pure ({ s with source := some w }, pool)
        | [] => throw .indexError
      | none => throw .indexError
    else if startsWith line "Filename:".toList then
      match lineValue line with
      | some v =>
        let p := pathParts v
        if lexSafe p then pure ({ s with filePath := some p }, pool) else pure (s, pool)
      | none => throw .indexError
    else if startsWith line "Size:".toList then
      match lineValue line with
      | some v => match parseInt v with
        | some n => pure ({ s with size := n }, pool)
        | none => throw .valueError
      | none => throw .indexError
    else if hashPrefixes.any (startsWith line) then pure ({ s with hasHash := true }, pool)
    else pure (s, pool)
  else
    match s.package, s.filePath with
    | some pkg, some fp =>
      if pkg.isEmpty || s.size = 0 then pure ({}, pool)
      else
        if !flt.allowed (s.srcName pkg) (some pkg) then pure ({}, pool)
        else pure ({}, putPool pool { path := fp, size := s.size, ignoreErrors := shouldIgnore ignored fp })
    | _, _ => pure ({}, pool)

/-- `PackagesParser._do_parse_index` on the lines of one index (state persists across indices as in the code:
    the block parser is NOT reset between files, only the synthetic final blank line flushes it) -/
def packagesMachine (flt : Filter) (ignored : List Path) (lines : List S) (pool : List PoolFile) : Except Err (List PoolFile) := do
  let r ← (lines ++ [['\n']]).foldlM (packagesLine flt ignored) ({}, pool)
  pure r.2

/-! ### Sources -/

structure SState where
  package : Option S := none
  directory : Option Path := none
  inSection : Bool := false          -- `_hash_type` is set (Files / Checksums-Sha1|Sha256|Sha512)
  files : List (Path × Int) := []    -- `_package_files`, dict keyed by path (first size wins: setdefault)
deriving Repr

def addSrcFile (files : List (Path × Int)) (p : Path) (sz : Int) : List (Path × Int) :=
  if files.any (·.1 = p) then files else files ++ [(p, sz)]

/-- `line.decode().strip().split(maxsplit=2)` when it yields three parts (none = the ValueError of the unpacking):
    the first two blank-separated tokens and the remainder (which may contain blanks) -/
def split3 (line : S) : Option (S × S × S) :=
  let s := Cfg.strip line
  let t1 := s.takeWhile (fun c => !Cfg.isWs c)
  let r1 := Cfg.lstrip (s.dropWhile (fun c => !Cfg.isWs c))
  let t2 := r1.takeWhile (fun c => !Cfg.isWs c)
  let r2 := Cfg.lstrip (r1.dropWhile (fun c => !Cfg.isWs c))
  if t1.isEmpty || t2.isEmpty || r2.isEmpty then none else some (t1, t2, r2)

/-- one line of `SourcesParser._do_parse_index` -/
def sourcesLine (flt : Filter) (ignored : List Path) (st : SState × List PoolFile) (line : S) :
    Except Err (SState × List PoolFile) :=
  let (s, pool) := st
  if line.head? = some ' ' then
    if !s.inSection then pure (s, pool)
    else
      match split3 line with
      | some (_, sz, fname) =>
        -- `if " " in filename: continue` (a tab inside the third part does not stop the code)
        if fname.contains ' ' then pure (s, pool)
        else
          let p := pathParts fname
          if !lexSafe p then pure (s, pool)
          else match parseInt sz with
            | some n => pure ({ s with files := addSrcFile s.files p n }, pool)
            | none => throw .valueError
      | none => pure (s, pool)
  else if line.head? ≠ some '\n' then
    if startsWith line "Package:".toList then
      match Cfg.splitWs (Cfg.strip line) with
      | [_, v] => pure ({ s with package := some v }, pool)
      | _ => throw .valueError
    else if startsWith line "Directory:".toList then
      match Cfg.splitWs (Cfg.strip line) with
      | [_, v] =>
        let p := pathParts v
        if lexSafe p then pure ({ s with directory := some p }, pool) else pure (s, pool)
      | _ => throw .valueError
    else if startsWith line "Files:".toList then pure ({ s with inSection := true }, pool)
    else if startsWith line "Checksums-".toList then
      let rest := (line.drop "Checksums-".length).dropLast
      pure ({ s with inSection := rest = "Sha1:".toList || rest = "Sha256:".toList || rest = "Sha512:".toList }, pool)
    else pure ({ s with inSection := false }, pool)
  else
    match s.package, s.directory with
    | some pkg, some dir =>
      if pkg.isEmpty then pure ({}, pool)
      else if !flt.allowed pkg none then pure ({}, pool)
      else
        pure ({}, s.files.foldl (fun pl f =>
          let full := if isAbsPath f.1 then f.1 else dir ++ f.1
          putPool pl { path := full, size := f.2, ignoreErrors := shouldIgnore ignored full }) pool)
    | _, _ => pure ({}, pool)

/-- `SourcesParser._do_parse_index` (the block parser IS reset at the start of every index) -/
def sourcesMachine (flt : Filter) (ignored : List Path) (lines : List S) (pool : List PoolFile) : Except Err (List PoolFile) := do
  let r ← (lines ++ [['\n']]).foldlM (sourcesLine flt ignored) ({}, pool)
  pure r.2

end Index
end AptMirror
