import AptMirror.Model.DownloadFile
/-
  Which file the pool stage parses for an index: model of IndexFileParser._unpack_index (apt_mirror/repository.py) and of what
  clean_repository_skel leaves of the variants of one index group.
-/
namespace AptMirror
namespace Unpack

/-- `IndexFileParser._unpack_index(file)`: which file the pool stage reads for the index `file` - the first of `file.xz`,
    `file.gz`, `file.bz2` that exists in skel (it is unpacked over `file`), otherwise `file` itself if it exists.
    `present c` = the variant of compression `c` exists in skel. -/
def choice (present : Comp → Bool) : Option Comp := Comp.all.find? present

/-- `clean_repository_skel(needed)`: a variant file survives iff it was there and one of its paths is needed -/
def afterSkelClean (present kept : Comp → Bool) : Comp → Bool := fun c => present c && kept c

end Unpack
end AptMirror
