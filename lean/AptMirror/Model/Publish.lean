import AptMirror.Model.Download
/-
  Model of RepositoryMirror.move_metadata (apt_mirror/apt_mirror.py): staging by hard links into
  `<top>.apt_mirror_new`, then two directory renames, as a sequence of filesystem operations, so that
  every prefix of the mutation sequence is a state.
-/
namespace AptMirror

inductive Op
  | relink (src dst : Path)          -- unlink dst; link(src, dst)
  | renameDir (a b : Path)           -- shutil.move(a, b) with b absent
  | rmtree (a : Path)
  | unlink (p : Path)
deriving DecidableEq, Repr

def isPrefix : Path → Path → Bool
  | [], _ => true
  | _ :: _, [] => false
  | a :: as, b :: bs => a == b && isPrefix as bs

namespace FS

def renameDir (fs : FS) (a b : Path) : FS :=
  { fs with ino := fun q =>
      if isPrefix b q then fs.ino (a ++ q.drop b.length)
      else if isPrefix a q then none
      else fs.ino q }

def rmtree (fs : FS) (a : Path) : FS :=
  { fs with ino := fun q => if isPrefix a q then none else fs.ino q }

/-- what a client sees below directory `d`: relative name ↦ (size, mtime, content) -/
def view (fs : FS) (d : Path) : Path → Option FileData := fun rel => (fs.ino (d ++ rel)).map fs.dat

/-- no name at or below `d` -/
def absent (fs : FS) (d : Path) : Prop := ∀ rel, fs.ino (d ++ rel) = none

end FS

def Op.apply (fs : FS) : Op → FS
  | .relink s d => fs.relink s d
  | .renameDir a b => fs.renameDir a b
  | .rmtree a => fs.rmtree a
  | .unlink p => fs.unlink p

def replay (ops : List Op) (fs : FS) : FS := ops.foldl Op.apply fs

/-- the relink operations `link_or_copy(source, *targets)` performs, in order -/
def linkOps (source : Path) : List Path → List Op
  | [] => []
  | [t] => if t = source then [] else [.relink source t]
  | t0 :: rest =>
    (if t0 = source then [] else [.relink source t0]) ++
      ((t0 :: rest).filter (· ≠ t0)).map (fun t => .relink t0 t)

/-- names of the swap: `<m>/<top>`, `<m>/<top>.apt_mirror_new`, `<m>/<top>.apt_mirror_old` -/
structure Swap where
  cur : Path
  new : Path
  old : Path

def mkSwap (mirror : Path) (top : String) : Swap :=
  { cur := mirror ++ [top], new := mirror ++ [top ++ ".apt_mirror_new"], old := mirror ++ [top ++ ".apt_mirror_old"] }

/-- staging: for each obtained variant below `top`, link the skel file to every alias under the new dir.
    `files` = (skel source path, alias paths relative to `top`). -/
def stageOps (sw : Swap) (files : List (Path × List Path)) : List Op :=
  files.flatMap fun f => linkOps f.1 (f.2.map (sw.new ++ ·))

/-- the two renames and the removal of the old tree (`curExists`: `<top>` existed before) -/
def swapOps (sw : Swap) (curExists : Bool) : List Op :=
  (if curExists then [.renameDir sw.cur sw.old] else []) ++ [.renameDir sw.new sw.cur, .rmtree sw.old]

/-- `move_metadata` for one top-level folder: drop leftovers, stage, swap -/
def moveOps (sw : Swap) (files : List (Path × List Path)) (curExists : Bool) : List Op :=
  [.rmtree sw.new, .rmtree sw.old] ++ stageOps sw files ++ swapOps sw curExists

end AptMirror
