/-
  Functional filesystem used by the L1/L2 models.

  Only regular files are modelled; directories are implicit (a directory exists
  iff some name has it as a prefix).  Two names mapping to one inode number are
  hard links.  `mtime = some d` means "set by utime to the upstream date d";
  `none` means "local clock of some write" (standing assumption S5 of DESIGN.md:
  no upstream date equals a local write time).
-/
namespace AptMirror

abbrev Path := List String

structure FileData where
  size  : Nat
  mtime : Option Int
  tag   : Nat          -- content identity (0 = nothing written yet)
deriving DecidableEq, Repr, Inhabited

structure FS where
  ino  : Path → Option Nat
  dat  : Nat → FileData
  next : Nat
  dom  : List Path     -- every name ever bound; only used for printing

namespace FS

def empty : FS := { ino := fun _ => none, dat := fun _ => default, next := 1, dom := [] }

def sizeAt (fs : FS) (p : Path) : Option Nat := (fs.ino p).map fun i => (fs.dat i).size
def dataAt (fs : FS) (p : Path) : Option FileData := (fs.ino p).map fs.dat
def exists_ (fs : FS) (p : Path) : Bool := (fs.ino p).isSome

def unlink (fs : FS) (p : Path) : FS :=
  { fs with ino := fun q => if q = p then none else fs.ino q }

/-- `open(p, "wb")` on a name that does not exist: a fresh empty inode. On an existing
    name the inode is truncated in place (same inode number). -/
def createTrunc (fs : FS) (p : Path) : FS :=
  match fs.ino p with
  | some i => { fs with dat := fun j => if j = i then { size := 0, mtime := none, tag := 0 } else fs.dat j }
  | none   =>
    { ino := fun q => if q = p then some fs.next else fs.ino q
      dat := fun j => if j = fs.next then { size := 0, mtime := none, tag := 0 } else fs.dat j
      next := fs.next + 1
      dom := p :: fs.dom }

/-- Result of writing `n` bytes of content `tag` through name `p` (after createTrunc). -/
def setContent (fs : FS) (p : Path) (n : Nat) (tag : Nat) : FS :=
  match fs.ino p with
  | some i => { fs with dat := fun j => if j = i then { size := n, mtime := none, tag := tag } else fs.dat j }
  | none   => fs

def utime (fs : FS) (p : Path) (t : Int) : FS :=
  match fs.ino p with
  | some i => { fs with dat := fun j => if j = i then { fs.dat i with mtime := some t } else fs.dat j }
  | none   => fs

/-- `unlink dst; link(src, dst)` — the only way the code creates links. -/
def relink (fs : FS) (src dst : Path) : FS :=
  { fs with ino := fun q => if q = dst then fs.ino src else fs.ino q
            dom := dst :: fs.dom }

/-- The write sequence of `download_file`: unlink, open("wb"), write n bytes of content `tag`. -/
def rewrite (fs : FS) (p : Path) (n tag : Nat) : FS := ((fs.unlink p).createTrunc p).setContent p n tag

/-- Fresh file with given data (used to build initial states). -/
def addFile (fs : FS) (p : Path) (d : FileData) : FS :=
  { ino := fun q => if q = p then some fs.next else fs.ino q
    dat := fun j => if j = fs.next then d else fs.dat j
    next := fs.next + 1
    dom := p :: fs.dom }

end FS
end AptMirror
