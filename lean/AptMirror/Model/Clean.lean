import AptMirror.Model.Publish
import AptMirror.Model.Str
/-
  Model of PathCleaner (apt_mirror/apt_mirror.py): the recursive scan (`_check_folder` / `_check_file`), the
  wipe-protection decision, automatic cleaning; and of the generated clean script with a model of the
  POSIX shell's word splitting restricted to what the script uses.
-/
namespace AptMirror
namespace Clean

inductive Node
  | file (size : Nat)
  | symlink
  | dir (children : List (String × Node))
deriving Repr, Inhabited

structure Scan where
  needed : Bool
  filesQ : List Path        -- files to unlink, traversal order
  foldersQ : List Path      -- folders to rmdir, post-order
  bytesTotal : Nat
  bytesCleaned : Nat
  nFiles : Nat
deriving Repr, DecidableEq

def Scan.empty : Scan := { needed := false, filesQ := [], foldersQ := [], bytesTotal := 0, bytesCleaned := 0, nFiles := 0 }

def Scan.merge (a b : Scan) : Scan :=
  { needed := a.needed || b.needed, filesQ := a.filesQ ++ b.filesQ, foldersQ := a.foldersQ ++ b.foldersQ,
    bytesTotal := a.bytesTotal + b.bytesTotal, bytesCleaned := a.bytesCleaned + b.bytesCleaned, nFiles := a.nFiles + b.nFiles }

mutual
/-- one directory entry at relative path `rel` (`isRoot`: the cleaner's root itself) -/
def scanNode (keep : List Path) (isRoot : Bool) (rel : Path) : Node → Scan
  | .symlink => { Scan.empty with needed := true }
  | .file size =>
    if keep.contains rel then { Scan.empty with needed := true, bytesTotal := size, nFiles := 1 }
    else { Scan.empty with filesQ := [rel], bytesTotal := size, bytesCleaned := size, nFiles := 1 }
  | .dir cs =>
    if keep.contains rel then { Scan.empty with needed := true }
    else
      let s := scanList keep rel cs
      if !s.needed && !isRoot then { s with foldersQ := s.foldersQ ++ [rel] } else s
def scanList (keep : List Path) (rel : Path) : List (String × Node) → Scan
  | [] => Scan.empty
  | (n, c) :: rest => (scanNode keep false (rel ++ [n]) c).merge (scanList keep rel rest)
end

/-- `PathCleaner(root, keep)` -/
def scan (keep : List Path) (root : Node) : Scan := scanNode keep true [] root

inductive Allowed | yes | no | zeroDivision
deriving DecidableEq, Repr

/-- `_clean_allowed` (after fix 55ca972) with ratios as fractions num/den (`none` or 0 = disabled; a zero
    total disables the test); `a / b >= n / d`  is  `a * d >= n * b` -/
def cleanAllowed (s : Scan) (sizeRatio countRatio : Option (Nat × Nat)) : Allowed :=
  let test := fun (r : Option (Nat × Nat)) (a b : Nat) =>
    match r with
    | none => Allowed.yes
    | some (n, d) => if n = 0 then .yes else if b = 0 then .yes else if a * d ≥ n * b then .no else .yes
  match test sizeRatio s.bytesCleaned s.bytesTotal with
  | .yes => test countRatio s.filesQ.length s.nFiles
  | r => r

/-- the original `_clean_allowed`: `x / 0` raises -/
def legacyCleanAllowed (s : Scan) (sizeRatio countRatio : Option (Nat × Nat)) : Allowed :=
  let test := fun (r : Option (Nat × Nat)) (a b : Nat) =>
    match r with
    | none => Allowed.yes
    | some (n, d) => if n = 0 then .yes else if b = 0 then .zeroDivision else if a * d ≥ n * b then .no else .yes
  match test sizeRatio s.bytesCleaned s.bytesTotal with
  | .yes => test countRatio s.filesQ.length s.nFiles
  | r => r

/-! ### flat view of a tree: what exists at which relative path -/
inductive Kind | file | symlink | dir
deriving DecidableEq, Repr

mutual
def flattenNode (rel : Path) : Node → List (Path × Kind)
  | .file _ => [(rel, .file)]
  | .symlink => [(rel, .symlink)]
  | .dir cs => (rel, .dir) :: flattenList rel cs
def flattenList (rel : Path) : List (String × Node) → List (Path × Kind)
  | [] => []
  | (n, c) :: rest => flattenNode (rel ++ [n]) c ++ flattenList rel rest
end

def properPrefix (a b : Path) : Bool := isPrefix a b && a.length < b.length

/-- executing the two queues on the flat view: unlink files, then rmdir folders in order;
    `none` if an rmdir meets a non-empty directory -/
def execQueues (fs : List (Path × Kind)) (s : Scan) : Option (List (Path × Kind)) :=
  let fs1 := fs.filter (fun e => !s.filesQ.contains e.1)
  s.foldersQ.foldlM (fun (cur : List (Path × Kind)) d =>
    if cur.any (fun e => properPrefix d e.1) then none else some (cur.filter (fun e => e.1 ≠ d))) fs1

/-- specification of the survivors on the flat view (the property's wording) -/
def specSurvives (keep : List Path) (fs : List (Path × Kind)) (e : Path × Kind) : Bool :=
  let underKept := keep.any (fun k => properPrefix k e.1)
  match e.2 with
  | .symlink => true
  | .file => keep.contains e.1 || underKept
  | .dir => e.1 = [] || keep.contains e.1 || underKept ||
      fs.any (fun x => properPrefix e.1 x.1 && (x.2 = .symlink || keep.contains x.1))

end Clean

/-! ### the clean script -/
namespace Script
open Str

/-- characters `shlex.quote` leaves unquoted: ASCII letters, digits and `@ % + = : , . / _` and the minus sign -/
def safeChar (c : Char) : Bool :=
  c.isAlphanum || c = '@' || c = '%' || c = '+' || c = '=' || c = ':' || c = ',' || c = '.' || c = '/' || c = '-' || c = '_'

def escapeSq : S → S
  | [] => []
  | c :: cs => if c = '\'' then "'\"'\"'".toList ++ escapeSq cs else c :: escapeSq cs

/-- `shlex.quote` -/
def quote (s : S) : S :=
  if s.isEmpty then "''".toList
  else if s.all safeChar then s
  else '\'' :: escapeSq s ++ ['\'']

/-- the original code: `'` + s + `'` -/
def legacyQuote (s : S) : S := '\'' :: s ++ ['\'']

inductive Mode | plain | single | double
deriving DecidableEq, Repr

/-- lexer state: current word (reversed) and whether a word is in progress, finished words of the current
    command (reversed), finished commands (reversed) -/
structure Lex where
  mode : Mode
  cur : S
  inWord : Bool
  words : List S
  cmds : List (List S)
deriving DecidableEq, Repr

def Lex.init : Lex := { mode := .plain, cur := [], inWord := false, words := [], cmds := [] }

def Lex.endWord (l : Lex) : Lex :=
  if l.inWord then { l with cur := [], inWord := false, words := l.cur.reverse :: l.words } else l

def Lex.endCmd (l : Lex) : Lex :=
  let l := l.endWord
  if l.words.isEmpty then l else { l with words := [], cmds := l.words.reverse :: l.cmds }

/-- one character of POSIX shell lexing, restricted: no `$`, backquote, backslash, glob, `;`, `&`, `|`, `#`
    handling (the script never emits them unquoted; inside quotes they are literal except in double quotes,
    where the script only ever puts a single quote) -/
def Lex.step (l : Lex) (c : Char) : Lex :=
  match l.mode with
  | .plain =>
    if c = '\'' then { l with mode := .single, inWord := true }
    else if c = '"' then { l with mode := .double, inWord := true }
    else if c = '\n' then l.endCmd
    else if c = ' ' || c = '\t' then l.endWord
    else { l with cur := c :: l.cur, inWord := true }
  | .single => if c = '\'' then { l with mode := .plain } else { l with cur := c :: l.cur }
  | .double => if c = '"' then { l with mode := .plain } else { l with cur := c :: l.cur }

def lex (s : S) : Option (List (List S)) :=
  let l := (s.foldl Lex.step Lex.init)
  if l.mode = .plain then some (l.endCmd.cmds.reverse) else none

/-- `write_clean_script` body lines for the queues (absolute paths as strings) -/
def scriptBody (q : S → S) (files folders : List S) : S :=
  (files.flatMap fun f => "rm -f ".toList ++ q f ++ ['\n']) ++ (folders.flatMap fun f => "rm -r ".toList ++ q f ++ ['\n'])

/-- the commands the script is meant to consist of -/
def intended (files folders : List S) : List (List S) :=
  files.map (fun f => ["rm".toList, "-f".toList, f]) ++ folders.map (fun f => ["rm".toList, "-r".toList, f])

end Script
end AptMirror
