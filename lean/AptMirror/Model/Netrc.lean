import AptMirror.Model.Config
/-
  Model of apt_mirror/netrc.py (tokeniser, machine accumulation, matching) and of the parts of
  apt_mirror/download/url.py that render a URL (without_auth, for_path, as_filesystem_path, get_host).
  urlparse is modelled for the grammar  [scheme "://"] [userinfo "@"] host [":" port] ["/" path]
-/
namespace AptMirror
namespace Netrc
open Str

inductive Tok | machine | login | password
deriving DecidableEq, Repr

def tokOf (s : S) : Option Tok :=
  if s = "machine".toList then some .machine else if s = "login".toList then some .login
  else if s = "password".toList then some .password else none

def isSep (c : Char) : Bool := c = ' ' || c = '\t' || c = '\n' || c = '\r'

/-- `[t for t in re.split(r"[ \t\n\r]", line) if t]` -/
def words (s : S) : List S :=
  let rec go (cur : S) (acc : List S) : S → List S
    | [] => (if cur.isEmpty then acc else cur.reverse :: acc).reverse
    | c :: cs => if isSep c then go [] (if cur.isEmpty then acc else cur.reverse :: acc) cs else go (c :: cur) acc cs
  go [] [] s

/-- tokens of one line: a keyword takes the next word as its value; an unknown word skips the next word;
    a keyword or unknown word at the end of the line ends the line -/
def lineTokens : List S → List (Tok × S)
  | k :: v :: rest =>
    match tokOf k with
    | some t => (t, v) :: lineTokens rest
    | none => lineTokens rest
  | _ => []

structure Machine where
  protocol : S          -- "" when the entry has no scheme
  hostname : Option S   -- lower-cased
  port : Option Nat
  path : S
deriving DecidableEq, Repr

def findSub (needle : S) : S → Option Nat
  | [] => if needle.isEmpty then some 0 else none
  | c :: cs => if needle.isPrefixOf (c :: cs) then some 0 else (findSub needle cs).map (· + 1)

def natOf (d : S) : Option Nat :=
  if d.isEmpty || !d.all Char.isDigit then none else some (d.foldl (fun n c => n * 10 + (c.toNat - '0'.toNat)) 0)

/-- restricted urlparse: (scheme, netloc, path) -/
def urlSplit (s : S) : S × S × S :=
  let (scheme, rest) : S × S :=
    match findSub "://".toList s with
    | some i =>
      let sc := s.take i
      if !sc.isEmpty && sc.all (fun c => c.isAlphanum || c = '+' || c = '-' || c = '.') && (sc.head?.map Char.isAlpha).getD false
      then (sc.map Char.toLower, s.drop (i + 1)) else ([], s)
    | none => ([], s)
  if rest.take 2 = "//".toList then
    let r := rest.drop 2
    (scheme, r.takeWhile (fun c => c ≠ '/' && c ≠ '?' && c ≠ '#'), r.dropWhile (fun c => c ≠ '/' && c ≠ '?' && c ≠ '#'))
  else (scheme, [], rest)

/-- `str.rpartition("@")[2]` -/
def afterLastAt (s : S) : S := (s.reverse.takeWhile (· ≠ '@')).reverse

def hostOf (netloc : S) : Option S :=
  let hp := afterLastAt netloc
  let h := hp.takeWhile (· ≠ ':')
  if h.isEmpty then none else some (h.map Char.toLower)

def portOf (netloc : S) : Option Nat :=
  let hp := afterLastAt netloc
  match hp.dropWhile (· ≠ ':') with
  | [] => none
  | _ :: d => natOf d

/-- `Machine.from_string` -/
def machineOf (s : S) : Machine :=
  let s' := if (findSub "//".toList s).isSome then s else "//".toList ++ s
  let (sc, nl, p) := urlSplit s'
  { protocol := sc, hostname := hostOf nl, port := portOf nl, path := p }

structure Url where
  scheme : S
  netloc : S
  path : S
  username : Option S
  password : Option S
deriving DecidableEq, Repr

def Url.hostname (u : Url) : Option S := hostOf u.netloc
def Url.port (u : Url) : Option Nat := portOf u.netloc

def userInfo (netloc : S) : Option S × Option S :=
  match findSub "@".toList netloc with
  | none => (none, none)
  | some _ =>
    let ui := (netloc.reverse.dropWhile (· ≠ '@')).drop 1 |>.reverse
    match findSub ":".toList ui with
    | none => (some ui, none)
    | some i => (some (ui.take i), some (ui.drop (i + 1)))

/-- `URL.from_string` -/
def urlOf (s : S) : Url :=
  let (sc, nl, p) := urlSplit s
  let (u, pw) := userInfo nl
  { scheme := sc, netloc := nl, path := p, username := u, password := pw }

/-- accumulation state of `NetRC._process_file` -/
structure Acc where
  machines : List (Machine × S × S)     -- dict in insertion order
  cur : Option Machine
  login : Option S
  password : Option S

def truthy (o : Option S) : Bool := match o with | some s => !s.isEmpty | none => false

/-- `_add_machine`: store (overwriting in place) if machine, login and password are all set; reset -/
def Acc.flush (a : Acc) : Acc :=
  let ms := match a.cur, a.login, a.password with
    | some m, some l, some p =>
      if !l.isEmpty && !p.isEmpty then
        (if a.machines.any (·.1 = m) then a.machines.map (fun e => if e.1 = m then (m, l, p) else e)
         else a.machines ++ [(m, l, p)])
      else a.machines
    | _, _, _ => a.machines
  { machines := ms, cur := none, login := none, password := none }

def Acc.token (a : Acc) (t : Tok × S) : Acc :=
  match t.1 with
  | .machine => { a.flush with cur := some (machineOf t.2) }
  | .login => { a with login := some t.2 }
  | .password => { a with password := some t.2 }

def processFile (a : Acc) (lines : List S) : Acc :=
  ((lines.flatMap (fun ln => lineTokens (words ln))).foldl Acc.token a).flush

def loadFiles (files : List (List S)) : List (Machine × S × S) :=
  (files.foldl processFile { machines := [], cur := none, login := none, password := none }).machines

/-- the four constraints of `match_machine` -/
def machMatches (m : Machine) (u : Url) : Bool :=
  !(m.protocol ≠ u.scheme && (!m.protocol.isEmpty || !(u.scheme = "https".toList || u.scheme = "tor+https".toList))) &&
  (m.hostname = u.hostname) &&
  !((m.port.getD 0 ≠ 0) && m.port ≠ u.port) &&
  !(!m.path.isEmpty && !m.path.isPrefixOf u.path)

def matchMachine (ms : List (Machine × S × S)) (u : Url) : Option (S × S) :=
  (ms.find? (fun e => machMatches e.1 u)).map (·.2)

/-- `Config._update_netrc` for one repository URL: credentials finally attached -/
def applied (ms : List (Machine × S × S)) (u : Url) : Option S × Option S :=
  match matchMachine ms u with
  | some (l, p) => if !truthy u.username && !truthy u.password then (some l, some p) else (u.username, u.password)
  | none => (u.username, u.password)

/-! ### rendering -/
def Url.getHost (u : Url) : S := afterLastAt u.netloc

/-- `without_auth` / `__str__` (params, query, fragment empty in the modelled grammar) -/
def Url.withoutAuth (u : Url) : S :=
  (if u.scheme.isEmpty then [] else u.scheme ++ ":".toList) ++
  (if u.getHost.isEmpty && !(u.path.take 2 = "//".toList) then [] else "//".toList ++ u.getHost) ++ u.path

/-- `as_filesystem_path(encode_tilde=false)` as a string -/
def Url.fsPath (u : Url) : S := u.getHost ++ "/".toList ++ u.path.dropWhile (· = '/')

/-- `for_path(p)` -/
def Url.forPath (u : Url) (p : S) : S :=
  let base := if u.path.getLast? = some '/' then u.path.dropLast else u.path
  let p' := if p.head? = some '/' then p.drop 1 else p
  (if u.scheme.isEmpty then [] else u.scheme ++ ":".toList) ++ "//".toList ++ u.getHost ++ base ++ "/".toList ++ p'

end Netrc
end AptMirror
