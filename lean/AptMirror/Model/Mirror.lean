import AptMirror.Model.FS
/-
  L2: one repository's mirror directory across whole runs, at the level of sets of files.

  What a run of `RepositoryMirror.mirror()` that ends without error does to `<mirror_path>/<repository>`, as a sequence of
  atomic operations (so that every prefix of the sequence is a state a killed process can leave behind):

    pool stage   for every pool file the indices name, in queue order: nothing if a file of the declared size is already there
                 (`Downloader.download()`'s size short-cut), otherwise unlink + create + the body chunk by chunk
    publish      the live `dists` tree is replaced as a whole by the metadata obtained in this run (the two renames of
                 `move_metadata`; their intermediate state is the subject of `Model/Publish` and C03)
    clean        every regular file that is neither needed nor below a skip-clean path is removed (`PathCleaner.clean()`)

  Inputs are what the earlier stages computed: the metadata files obtained (`Need.mfiles`, every alias path with its size and
  content) and the pool queue (`Need.pool`).  That these are functions of the upstream state is C09/C10; that the run reaches
  this point only if every one of them was obtained is C01/C05.  The correspondence harness feeds the lists observed in real
  runs (arguments of `move_metadata`, `clean_repository`, return value of `download_pool_files`) together with the tree
  found before the run, and compares the transfers, removals and final tree predicted here with what the real run did.

  A file is (size, tag): `tag` names the upstream body the bytes come from, `size` how many of its bytes are there.
-/
namespace AptMirror
namespace Mirror

structure File where
  size : Nat
  tag  : Nat
deriving DecidableEq, Repr, Inhabited

structure Tree where
  dists : Path → Option File     -- live metadata, names relative to the mirror directory
  pool  : Path → Option File     -- every other regular file below the mirror directory
  dom   : List Path              -- every pool name ever bound (for enumeration)

def Tree.empty : Tree := { dists := fun _ => none, pool := fun _ => none, dom := [] }

structure PoolNeed where
  path   : Path
  size   : Nat                   -- size the index declares
  tag    : Nat                   -- the upstream body served for this path
  chunks : List Nat              -- how a fault-free transfer delivers it
deriving Repr

structure Need where
  mfiles : List (Path × File)      -- obtained metadata: every path it is published under
  pool : List PoolNeed
  keepExtra : Path → Bool        -- below a skip-clean path

def lookupMeta (mfiles : List (Path × File)) (p : Path) : Option File := (mfiles.find? (·.1 = p)).map (·.2)

inductive Op
  | create (p : Path) (tag : Nat)      -- unlink; open("wb"): an empty file that will receive body `tag`
  | append (p : Path) (k : Nat)        -- one chunk
  | swap (mfiles : List (Path × File))   -- dists goes live
  | remove (p : Path)                  -- cleaner
deriving Repr

def step (t : Tree) : Op → Tree
  | .create p tag => { t with pool := fun q => if q = p then some ⟨0, tag⟩ else t.pool q, dom := p :: t.dom }
  | .append p k => { t with pool := fun q => if q = p then (t.pool p).map (fun f => { f with size := f.size + k }) else t.pool q }
  | .swap mfiles => { t with dists := lookupMeta mfiles }
  | .remove p => { t with pool := fun q => if q = p then none else t.pool q }

def exec (ops : List Op) (t : Tree) : Tree := ops.foldl step t

def writeOps (n : PoolNeed) : List Op := .create n.path n.tag :: n.chunks.map (.append n.path)

/-- the size short-cut of `Downloader.download()` for `check_size` files -/
def present (t : Tree) (n : PoolNeed) : Bool :=
  match t.pool n.path with
  | some f => f.size == n.size
  | none => false

def fileOps (t : Tree) (n : PoolNeed) : List Op := if present t n then [] else writeOps n

def poolOps : Tree → List PoolNeed → List Op
  | _, [] => []
  | t, n :: ns => fileOps t n ++ poolOps (exec (fileOps t n) t) ns

def keep (need : Need) (p : Path) : Bool := need.pool.any (fun n => n.path = p) || need.keepExtra p

def cleanOps (t : Tree) (need : Need) : List Op :=
  (t.dom.eraseDups.filter fun p => (t.pool p).isSome && !keep need p).map .remove

/-- the operations of a run that ends without error, cleaning enabled -/
def runOps (t : Tree) (need : Need) : List Op :=
  poolOps t need.pool ++ [.swap need.mfiles] ++ cleanOps (exec (poolOps t need.pool) t) need

def run (t : Tree) (need : Need) : Tree := exec (runOps t need) t

/-- bodies requested by the run -/
def transfers (t : Tree) (need : Need) : List Path :=
  (poolOps t need.pool).filterMap fun | .create p _ => some p | _ => none

def removals (t : Tree) (need : Need) : List Path :=
  (cleanOps (exec (poolOps t need.pool) t) need).filterMap fun | .remove p => some p | _ => none

/-- the process is killed before its `k`-th operation -/
def crash (t : Tree) (need : Need) (k : Nat) : Tree := exec ((runOps t need).take k) t

end Mirror
end AptMirror
