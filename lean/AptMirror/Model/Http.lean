import AptMirror.Model.Download
/-
  Model of apt_mirror/download/protocols/http.py (decision logic only) and apt_mirror/download/proxy.py.

  * `classify`     — HTTPDownloader.stream: status / headers -> DownloadResponse, exception -> DownloadResponse
  * `transportFor` — which httpx transport serves a request (mount precedence) and what it was built with
  * `Proxy.forScheme`, `quote`/`unquote` — proxy URL construction with percent-encoded credentials

  Not modelled: httpx / h11 / h2 / ssl wire behaviour (exercised by the loopback harness).
-/
namespace AptMirror
namespace Http

/-- what httpx hands to `stream()` for one request -/
inductive Wire
  | response (status : Nat) (contentLength : Option Nat) (lastModified : Option Int)
      -- header values after `int(...)` / `parsedate_to_datetime(...)`; `none` = header absent or unparsable
  | protocolError (serverDisconnected : Bool)   -- httpx.RemoteProtocolError; flag: "Server disconnected" in the message
  | otherException                              -- ConnectError, ReadTimeout, TooManyRedirects, ssl errors, ...
deriving DecidableEq, Repr

/-- the DownloadResponse record -/
structure DResp where
  missing : Bool
  error : Bool
  retry : Bool
  size : Option Nat
  date : Option Int
deriving DecidableEq, Repr

inductive Mode | legacy | strict
deriving DecidableEq, Repr

/-- `HTTPDownloader.stream`.  `legacy` is the code as it stands: a RemoteProtocolError whose message does *not* contain
    "Server disconnected" is reported as `retry` (no error); `strict` reports every protocol failure as an error. -/
def classify (m : Mode) : Wire → DResp
  | .response st cl lm =>
    { missing := decide (400 ≤ st ∧ st < 500), error := decide (500 ≤ st ∧ st < 600), retry := false, size := cl, date := lm }
  | .protocolError disc =>
    match m with
    | .legacy => { missing := false, error := disc, retry := !disc, size := none, date := none }
    | .strict => { missing := false, error := true, retry := false, size := none, date := none }
  | .otherException => { missing := false, error := true, retry := false, size := none, date := none }

/-- how `download_file` reads the record (branch order: retry, missing, error, else body) as an L1 response;
    `body`/`abort`/`tag` describe what the stream then delivers -/
def toResp (r : DResp) (body : Nat) (abort : Bool) (tag : Nat) : Resp :=
  if r.retry then .retry
  else if r.missing then .missing
  else if r.error then .error
  else .ok r.size r.date body abort tag

/-! ### transport selection -/

inductive Verify | system | bundle (path : String) | off
deriving DecidableEq, Repr

inductive Cert | single (cert : String) | pair (cert key : String)
deriving DecidableEq, Repr

structure ProxyCfg where
  useProxy : Bool
  httpProxy : String
  httpsProxy : String
deriving DecidableEq, Repr

structure Settings where
  noCheck : Bool
  caBundle : String          -- "" = unset
  certificate : String       -- "" = unset
  privateKey : String        -- "" = unset
  proxy : ProxyCfg
  http2Disable : Bool
deriving DecidableEq, Repr

structure Transport where
  verify : Verify
  cert : Option Cert
  proxy : Option String      -- the proxy setting this transport routes through
  http2 : Bool
deriving DecidableEq, Repr

/-- `Config.verify_ca_certificate` -/
def Settings.verify (s : Settings) : Verify :=
  if s.noCheck then .off else if s.caBundle ≠ "" then .bundle s.caBundle else .system

/-- the `client_certificate` value computed in `__post_init__` -/
def Settings.clientCert (s : Settings) : Option Cert :=
  if s.certificate ≠ "" then
    (if s.privateKey ≠ "" then some (.pair s.certificate s.privateKey) else some (.single s.certificate))
  else none

/-- `Proxy.for_scheme` (before `url_for_proxy`) -/
def ProxyCfg.forScheme (p : ProxyCfg) (scheme : String) : Option String :=
  if !p.useProxy then none
  else if scheme = "http" ∧ p.httpProxy ≠ "" then some p.httpProxy
  else if scheme = "https" ∧ p.httpsProxy ≠ "" then some p.httpsProxy
  else none

/-- the transports mounted for "http://" and "https://"; `withCert` = the fixed code -/
def mounts (withCert : Bool) (s : Settings) : List (String × Transport) :=
  ["http", "https"].map fun sch =>
    (sch, { verify := s.verify, cert := if withCert then s.clientCert else none,
            proxy := s.proxy.forScheme sch, http2 := !s.http2Disable })

/-- the `transport=` argument of `httpx.AsyncClient` -/
def defaultTransport (s : Settings) : Transport :=
  { verify := s.verify, cert := s.clientCert, proxy := none, http2 := !s.http2Disable }

/-- httpx: a request is served by the first mounted transport whose pattern matches its URL, else by the default one -/
def select (ms : List (String × Transport)) (dflt : Transport) (scheme : String) : Transport :=
  match ms.find? (fun m => m.1 = scheme) with
  | some m => m.2
  | none => dflt

def transportFor (withCert : Bool) (s : Settings) (scheme : String) : Transport :=
  select (mounts withCert s) (defaultTransport s) scheme

/-! ### percent-encoding of proxy credentials (`urllib.parse.quote(x, safe="")`, bytes level) -/

def isUnreserved (b : Nat) : Bool :=
  (65 ≤ b ∧ b ≤ 90) ∨ (97 ≤ b ∧ b ≤ 122) ∨ (48 ≤ b ∧ b ≤ 57) ∨ b = 95 ∨ b = 46 ∨ b = 45 ∨ b = 126

/-- upper-case hex digit of a nibble, as a byte -/
def hexDigit (n : Nat) : Nat := if n < 10 then 48 + n else 55 + n

def unhex (b : Nat) : Option Nat :=
  if 48 ≤ b ∧ b ≤ 57 then some (b - 48)
  else if 65 ≤ b ∧ b ≤ 70 then some (b - 55)
  else if 97 ≤ b ∧ b ≤ 102 then some (b - 87)
  else none

/-- `quote(bytes, safe="")` -/
def quote : List Nat → List Nat
  | [] => []
  | b :: rest => if isUnreserved b then b :: quote rest else 37 :: hexDigit (b / 16) :: hexDigit (b % 16) :: quote rest

/-- `unquote_to_bytes` -/
def unquote : List Nat → List Nat
  | [] => []
  | [b] => [b]
  | [b, c] => [b, c]
  | b :: h :: l :: rest =>
    if b = 37 then
      match unhex h, unhex l with
      | some a, some c => (a * 16 + c) :: unquote rest
      | _, _ => 37 :: unquote (h :: l :: rest)
    else b :: unquote (h :: l :: rest)

theorem unquote_cons_ne (b : Nat) (r : List Nat) (h : b ≠ 37) : unquote (b :: r) = b :: unquote r := by
  match r with
  | [] => rfl
  | [c] => rfl
  | c :: d :: r' => simp [unquote, h]

/-- `Proxy.url_for_proxy` on the pieces: (scheme, netloc, tail) of the configured proxy and optional credentials -/
def userinfo (user password : List Nat) : List Nat :=
  if user = [] then [] else if password = [] then quote user ++ [64] else quote user ++ [58] ++ quote password ++ [64]

end Http
end AptMirror
