import AptMirror.Model.Str
/-
  Model of Repository._metadata_file_allowed / FlatRepository._metadata_file_allowed
  (apt_mirror/repository.py): the substring heuristics, literally, on the string of the path.
-/
namespace AptMirror
open Str

structure Component where
  name : S
  mirrorSource : Bool
  arches : List S
deriving DecidableEq, Repr

structure CodenameCfg where
  components : List Component       -- dict in insertion order
deriving DecidableEq, Repr

def CodenameCfg.shouldMirrorSource (c : CodenameCfg) : Bool := c.components.any (·.mirrorSource)
def CodenameCfg.shouldMirrorBinaries (c : CodenameCfg) : Bool := c.components.any (fun k => !k.arches.isEmpty)

/-- `file_path.name` of a path given as its string -/
def baseName (s : S) : S := (splitOn '/' s).getLast?.getD []

def lit (s : String) : S := s.toList

/-- `Repository._metadata_file_allowed(codename, file_path)` with `s = str(file_path)` -/
def allowed (c : CodenameCfg) (s : S) : Bool :=
  let name := baseName s
  if !c.shouldMirrorSource && (isInfix (lit "/source/") s || startsWith name (lit "Contents-source")) then false
  else if !c.shouldMirrorBinaries &&
      [lit "/binary-", lit "/cnf/", lit "/dep11/", lit "/i18n/"].any (fun part => isInfix part s) then false
  else
    let split := min (count '/' s) 2
    let compOK : Bool :=
      if split ≥ 1 then
        let fc := rsplitHead '/' split s
        match c.components.find? (·.name = fc) with
        | none => false
        | some comp =>
          !(isInfix (lit "/binary-") s && !isInfix (lit "source") s &&
            (!c.shouldMirrorBinaries || !(comp.arches ++ [lit "-all"]).any (fun a => isInfix a s)))
      else true
    if !compOK then false
    else
      let allArches0 := (c.components.flatMap (·.arches)).eraseDups
      let allArches := if allArches0.isEmpty then allArches0 else allArches0 ++ [lit "all"]
      if [lit "Commands-", lit "Components-", lit "Contents-"].any (fun p => startsWith name p) &&
          !isInfix (lit "source") name && !allArches.any (fun a => isInfix a name) then false
      else if isInfix (lit "Contents-") s && isInfix (lit ".diff") s && !allArches.any (fun a => isInfix a name) then false
      else true

/-- `FlatRepository._metadata_file_allowed` -/
def allowedFlat (mirrorSource mirrorBinaries : Bool) (s : S) : Bool :=
  let sfx := [lit ".xz", lit ".gz", lit ".bz2", lit ""]
  if !mirrorSource && sfx.any (fun x => s = lit "Sources" ++ x) then false
  else if !mirrorBinaries && sfx.any (fun x => s = lit "Packages" ++ x) then false
  else true

end AptMirror
