import AptMirror.Model.Download
/-
  Model of apt_mirror/apt_mirror.py : RepositoryMirror.download_release_files — the rounds of the release-file stage in skel:
  reset_paths + add (which resets the counters) + download, then "drop release files in skel which we were unable to download",
  then the verdict of validate_release_files (a parameter here; its own model is Model/Release.lean `validate`).
-/
namespace AptMirror

/-- `Downloader.get_downloaded_files_paths()` -/
def obtainedPaths (b : Book) : List Path :=
  listDiff ((b.downloaded ++ b.unmodified).flatMap Variant.allPaths) b.missing

/-- `reset_paths()`; `add()` → `reset_stats()` -/
def resetRound (s : DState) : DState := { s with book := {} }

/-- `DownloadFile.from_path(path, ignore_missing=True)` for every release file name -/
def releaseDFiles (names : List Path) : List DFile := names.map fun p => DFile.fromPath p false true

/-- one step of the drop loop: `if path.exists() and relative_path not in downloaded_paths: path.unlink()` -/
def dropStep (root : Path) (obt : List Path) (fs : FS) (p : Path) : FS :=
  if fs.exists_ (root ++ p) && !obt.contains p then fs.unlink (root ++ p) else fs

def dropUnobtained (root : Path) (names : List Path) (s : DState) : DState :=
  { s with fs := names.foldl (dropStep root (obtainedPaths s.book)) s.fs }

/-- one pass through the body of `while True` up to the validation -/
def releaseRound (root : Path) (names : List Path) (s : DState) : DState :=
  dropUnobtained root names (download root (releaseDFiles names) (resetRound s))

/-- the loop: `valid i` is the verdict of `validate_release_files` after round `i`; `tries` is started at
    `max 1 release_files_retries` (`tries -= 1; if tries < 1: return []`).
    Result: `none` = `return []` (the repository fails), `some e` = the release files are returned and `has_errors()` is `e`;
    the number of rounds run; the final downloader/skel state. -/
def releaseStage (root : Path) (names : List Path) (valid : Nat → Bool) :
    (tries : Nat) → (i : Nat) → DState → Option Bool × Nat × DState
  | 0, i, s => (none, i, s)
  | t + 1, i, s =>
    if valid i then (some (decide (0 < (releaseRound root names s).book.errCount)), i + 1, releaseRound root names s)
    else if t = 0 then (none, i + 1, releaseRound root names s)
    else releaseStage root names valid t (i + 1) (releaseRound root names s)

end AptMirror
