/-
  Model of the concurrency structure of a run (apt_mirror/apt_mirror.py, download/downloader.py):
  one task per repository guarded by the repository semaphore (nthreads), per repository a window of at most
  128 transfer tasks, every attempt of every transfer guarded by the shared download semaphore (nthreads),
  which is held from before the request until the end of the attempt (including the 5 s retry sleep).
  The scheduler (asyncio) is modelled by nondeterminism: any enabled event may happen next; no fairness or
  FIFO wake-up order is assumed.
-/
namespace AptMirror
namespace Sched

inductive Status | waiting | active | done
deriving DecidableEq, Repr

structure Repo where
  status : Status
  queued : Nat            -- files not yet turned into tasks
  want : List Nat         -- tasks waiting for the download semaphore (remaining attempts each, ≥ 1)
  infl : List Nat         -- tasks holding the download semaphore (in flight / sleeping before retry)
deriving DecidableEq, Repr

structure S where
  n : Nat                 -- nthreads
  maxAttempts : Nat       -- bound on attempts of one transfer (variants × aliases × 10)
  repos : List Repo
deriving DecidableEq, Repr

def window : Nat := 128

def inflight (s : S) : Nat := (s.repos.map (·.infl.length)).sum
def active (s : S) : Nat := (s.repos.map (fun r => if r.status = .active then 1 else 0)).sum

inductive Ev
  | start (i : Nat)                       -- repository i passes the repository semaphore
  | spawn (i : Nat) (attempts : Nat)      -- download(): a task is created for the next queued file
  | acquire (i j : Nat)                   -- task j of repository i passes the download semaphore
  | finish (i j : Nat) (again : Bool)     -- its attempt ends: it retries later or is over
  | repoDone (i : Nat)                    -- all stages of repository i are over
deriving DecidableEq, Repr

def setRepo (s : S) (i : Nat) (r : Repo) : S := { s with repos := s.repos.set i r }

/-- guarded step: `none` when the event is not enabled -/
def step (s : S) : Ev → Option S
  | .start i =>
    match s.repos[i]? with
    | some r => if r.status = .waiting ∧ active s < s.n then some (setRepo s i { r with status := .active }) else none
    | none => none
  | .spawn i a =>
    match s.repos[i]? with
    | some r =>
      if r.status = .active ∧ 0 < r.queued ∧ r.want.length + r.infl.length < window ∧ 1 ≤ a ∧ a ≤ s.maxAttempts then
        some (setRepo s i { r with queued := r.queued - 1, want := r.want ++ [a] })
      else none
    | none => none
  | .acquire i j =>
    match s.repos[i]? with
    | some r =>
      match r.want[j]? with
      | some a => if inflight s < s.n then some (setRepo s i { r with want := r.want.eraseIdx j, infl := r.infl ++ [a] }) else none
      | none => none
    | none => none
  | .finish i j again =>
    match s.repos[i]? with
    | some r =>
      match r.infl[j]? with
      | some a =>
        if again ∧ 1 < a then some (setRepo s i { r with infl := r.infl.eraseIdx j, want := r.want ++ [a - 1] })
        else some (setRepo s i { r with infl := r.infl.eraseIdx j })
      | none => none
    | none => none
  | .repoDone i =>
    match s.repos[i]? with
    | some r =>
      if r.status = .active ∧ r.queued = 0 ∧ r.want = [] ∧ r.infl = [] then some (setRepo s i { r with status := .done }) else none
    | none => none

def final (s : S) : Bool := s.repos.all (·.status = .done)

/-- states reachable by accepted event sequences -/
def runEvents (s : S) : List Ev → Option S
  | [] => some s
  | e :: es => match step s e with | some s' => runEvents s' es | none => none

/-- well-formed: tasks have 1..maxAttempts attempts left; only active repositories have tasks -/
def Repo.wf (m : Nat) (r : Repo) : Prop :=
  (∀ a ∈ r.want, 1 ≤ a ∧ a ≤ m) ∧ (∀ a ∈ r.infl, 1 ≤ a ∧ a ≤ m) ∧ (r.status ≠ .active → r.want = [] ∧ r.infl = []) ∧
  (r.status = .done → r.queued = 0)

def initial (n m : Nat) (files : List Nat) : S :=
  { n := n, maxAttempts := m, repos := files.map fun q => { status := .waiting, queued := q, want := [], infl := [] } }

/-- termination measure -/
def repoMeasure (m : Nat) (r : Repo) : Nat :=
  (match r.status with | .waiting => 2 | .active => 1 | .done => 0) + r.queued * (2 * m + 3) +
  (r.want.map (fun a => 2 * a + 2)).sum + (r.infl.map (fun a => 2 * a + 1)).sum

def measure (s : S) : Nat := (s.repos.map (repoMeasure s.maxAttempts)).sum

end Sched
end AptMirror
