/-
  Model of APTMirror.lock() (apt_mirror/apt_mirror.py) for any number of processes sharing one var_path:
  the lock file name, inodes, one exclusive flock per inode (per open file description), and the
  per-process protocol as a step function; a schedule is a list of (pid, action).
  Kernel assumptions (the step rules): open(O_CREAT) of a missing name allocates a fresh inode, flock(LOCK_NB)
  succeeds iff nobody holds the inode, close/death releases, unlink removes the name only.
-/
namespace AptMirror
namespace Lock

inductive Proto | legacy | fixed
deriving DecidableEq, Repr

inductive PC
  | start | opened | locked | inside | left | closed | unlinked | done (ok : Bool)
deriving DecidableEq, Repr

structure Proc where
  pc : PC
  fd : Option Nat
deriving DecidableEq, Repr

structure K where
  name : Option Nat            -- inode the lock file name denotes
  next : Nat                   -- next fresh inode number
  holder : Nat → Option Nat    -- inode ↦ pid holding the exclusive lock
  procs : Nat → Proc

def init : K := { name := none, next := 0, holder := fun _ => none, procs := fun _ => { pc := .start, fd := none } }

def K.setProc (k : K) (p : Nat) (x : Proc) : K := { k with procs := fun q => if q = p then x else k.procs q }

/-- closing the descriptor (or dying) drops every lock the process holds -/
def K.release (k : K) (p : Nat) : K :=
  { k with holder := fun j => if k.holder j = some p then none else k.holder j }

inductive Act | step | kill
deriving DecidableEq, Repr

/-- process `p` performs its next protocol step (or is killed) -/
def stepProc (proto : Proto) (k : K) (p : Nat) : Act → K
  | .kill =>
    match (k.procs p).pc with
    | .done _ => k
    | _ => (k.release p).setProc p { pc := .done false, fd := none }
  | .step =>
    let pr := k.procs p
    match pr.pc with
    | .start =>   -- open(lock_file, "wb")
      match k.name with
      | some i => k.setProc p { pc := .opened, fd := some i }
      | none => ({ k with name := some k.next, next := k.next + 1 }).setProc p { pc := .opened, fd := some k.next }
    | .opened =>  -- flock(LOCK_EX | LOCK_NB)
      match pr.fd with
      | some i =>
        if k.holder i = none then
          ({ k with holder := fun j => if j = i then some p else k.holder j }).setProc p { pr with pc := .locked }
        else k.setProc p { pc := .done false, fd := none }        -- EWOULDBLOCK: die(), descriptor closed
      | none => k
    | .locked =>
      match proto with
      | .legacy => k.setProc p { pr with pc := .inside }
      | .fixed =>   -- fstat(fd).st_ino == stat(path).st_ino ?
        if k.name = pr.fd then k.setProc p { pr with pc := .inside }
        else (k.release p).setProc p { pc := .done false, fd := none }
    | .inside => k.setProc p { pr with pc := .left }
    | .left =>
      match proto with
      | .legacy => (k.release p).setProc p { pc := .closed, fd := none }         -- close first …
      | .fixed => ({ k with name := none }).setProc p { pr with pc := .unlinked }  -- unlink while holding the lock
    | .closed => ({ k with name := none }).setProc p { pc := .done true, fd := none }  -- … then unlink (legacy)
    | .unlinked => (k.release p).setProc p { pc := .done true, fd := none }
    | .done _ => k

def run (proto : Proto) (sched : List (Nat × Act)) (k : K) : K :=
  sched.foldl (fun k pa => stepProc proto k pa.1 pa.2) k

def insideP (k : K) (p : Nat) : Bool := (k.procs p).pc = .inside

/-- pids among `pids` that are inside the mirroring section -/
def insiders (k : K) (pids : List Nat) : List Nat := pids.filter (insideP k)

end Lock
end AptMirror
