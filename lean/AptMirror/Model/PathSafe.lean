import AptMirror.Model.Publish
/-
  Lexical path safety: model of apt_mirror/repository.py `is_safe_path` (after fix 355dbb5) on a
  symlink-free tree, and of lexical resolution (`Path.resolve()` without symlinks).
  Paths are pathlib `parts`; an absolute path has "/" as its first part.
-/
namespace AptMirror

/-- pathlib: the first part of an absolute path is its root, "/" or "//" -/
def isAbsPath (p : Path) : Bool := match p with
  | c :: _ => c.toList.head? == some '/'
  | [] => false

/-- never climbs above the starting point: no prefix has more ".." than names -/
def lexSafeGo : Nat → Path → Bool
  | _, [] => true
  | d, c :: rest => if c = ".." then (if d = 0 then false else lexSafeGo (d - 1) rest) else lexSafeGo (d + 1) rest

/-- `is_safe_path(root, path)` on a symlink-free tree: relative and never above its start -/
def lexSafe (p : Path) : Bool := !isAbsPath p && lexSafeGo 0 p

/-- lexical resolution of `..` against a stack of already resolved components (innermost first);
    `..` at the top of the filesystem stays there -/
def resolveGo : (stack : Path) → Path → Path
  | stack, [] => stack.reverse
  | stack, c :: rest => if c = ".." then resolveGo (stack.drop 1) rest else resolveGo (c :: stack) rest

/-- resolve `root / p` where `root` is already resolved (no `..`), `p` relative -/
def resolveUnder (root p : Path) : Path := resolveGo root.reverse p

/-- pathlib join: an absolute right operand discards the left one -/
def joinPath (a b : Path) : Path := if isAbsPath b then b else a ++ b

/-- the value of a Release hash field may become a by-hash file name only if it is one plain
    component (`str.isalnum()` in the code; here: non-empty, no separator, not a dot name) -/
def plainName (h : String) : Bool := h ≠ "" && h ≠ ".." && h ≠ "." && !h.toList.contains '/'

end AptMirror
