import AptMirror.Model.Str
/-
  Model of apt_mirror/config.py: RepositoryConfig.from_line, to_repository/update_repository (the merge of
  deb lines into repositories), URLDict key lookup and option scoping, get_bool / get_size.
  Models the code after fix (copy of the arches list per component).
-/
namespace AptMirror
namespace Cfg
open Str

def isWs (c : Char) : Bool := c = ' ' || c = '\t' || c = '\n' || c = '\r' || c = '\x0b' || c = '\x0c'

/-- Python `s.split()` -/
def splitWs (s : S) : List S :=
  let rec go (cur : S) (acc : List S) : S → List S
    | [] => (if cur.isEmpty then acc else cur.reverse :: acc).reverse
    | c :: cs => if isWs c then go [] (if cur.isEmpty then acc else cur.reverse :: acc) cs else go (c :: cur) acc cs
  go [] [] s

def lstrip (s : S) : S := s.dropWhile isWs
def strip (s : S) : S := (lstrip (lstrip s).reverse).reverse

/-- Python `s.split(maxsplit=1)`: first token and the (left-stripped) remainder, if any -/
def split1 (s : S) : Option (S × Option S) :=
  let s := lstrip s
  if s.isEmpty then none
  else
    let tok := s.takeWhile (fun c => !isWs c)
    let rest := lstrip (s.dropWhile (fun c => !isWs c))
    some (tok, if rest.isEmpty then none else some rest)

/-- `s.split(ch, 1)` -/
def splitChar1 (ch : Char) (s : S) : S × Option S :=
  let a := s.takeWhile (· ≠ ch)
  match s.dropWhile (· ≠ ch) with
  | [] => (a, none)
  | _ :: b => (a, some b)

inductive ByHashOpt | yes | no | force
deriving DecidableEq, Repr, Inhabited

def byHashOf (v : S) : Option ByHashOpt :=
  if v = "yes".toList then some .yes else if v = "no".toList then some .no
  else if v = "force".toList then some .force else none

structure LineCfg where
  key : S
  arches : List S
  source : Bool
  codenames : List S
  components : List S
  byHash : ByHashOpt
deriving DecidableEq, Repr

inductive ParseErr | valueError | mixedFlat
deriving DecidableEq, Repr

def addArch (arches : List S) (a : S) : List S := if arches.contains a then arches else arches ++ [a]

/-- the `[ ... ]` option block: returns (arches, source, byHash) -/
def applyOptions (opts : List S) (arches : List S) (source : Bool) (bh : ByHashOpt) :
    Except ParseErr (List S × Bool × ByHashOpt) :=
  opts.foldlM (fun (st : List S × Bool × ByHashOpt) (o : S) =>
    match splitChar1 '=' o with
    | (_, none) => throw ParseErr.valueError          -- unpacking key, value fails
    | (k, some v) =>
      if k = "arch".toList then
        let (ar, src) := (splitOn ',' v).foldl (fun (p : List S × Bool) a =>
          if a = "src".toList then (p.1, true) else (addArch p.1 a, p.2)) (st.1, st.2.1)
        pure (ar, src, st.2.2)
      else if k = "by-hash".toList then
        pure (st.1, st.2.1, (byHashOf v).getD st.2.2)
      else pure st) (arches, source, bh)

def stripBrackets (s : S) : S :=
  let f := fun c => c = '[' || c = ']'
  ((s.dropWhile f).reverse.dropWhile f).reverse

/-- `RepositoryConfig.from_line(line, default_arch)`; `line` is already stripped -/
def fromLine (line : S) (defaultArch : S) : Except ParseErr LineCfg := do
  let (rtype, rest) ← match split1 line with
    | some (t, some r) => pure (t, r)
    | _ => throw ParseErr.valueError
  let (arches0, source0) : List S × Bool :=
    match splitChar1 '-' rtype with
    | (_, some arch) => if arch = "src".toList then ([], true) else ([arch], false)
    | (_, none) => ([], false)
  let (arches1, source1, bh, url1) ←
    if rest.head? = some '[' then
      match splitChar1 ']' rest with
      | (o, some u) => do
        let r ← applyOptions (splitWs (strip (stripBrackets o))) arches0 source0 .yes
        pure (r.1, r.2.1, r.2.2, u)
      | (_, none) => throw ParseErr.valueError
    else pure (arches0, source0, ByHashOpt.yes, rest)
  let (url, codenameField) ← match split1 url1 with
    | some (u, some c) => pure (u, c)
    | _ => throw ParseErr.valueError
  let arches2 := if arches1.isEmpty && !source1 then [defaultArch] else arches1
  let (codename, components) : S × List S :=
    if codenameField.contains ' ' then
      match split1 codenameField with
      | some (c, some r) => (c, splitWs r)
      | some (c, none) => (c, [])
      | none => ([], [])
    else (codenameField, [])
  let codenames := splitOn ',' codename
  let isFlat := fun (c : S) => c.getLast? = some '/'
  if !(codenames.all isFlat) && !(codenames.all (fun c => !isFlat c)) then throw ParseErr.mixedFlat
  pure { key := rstrip '/' url, arches := arches2, source := source1, codenames := codenames,
         components := components, byHash := bh }

def LineCfg.isFlat (l : LineCfg) : Bool := l.codenames.any (fun c => c.getLast? = some '/')

/-! ### repositories -/

structure CompRec where
  name : S
  source : Bool
  arches : List S
deriving DecidableEq, Repr

structure CodenameRec where
  name : S
  byHash : ByHashOpt
  comps : List CompRec
deriving DecidableEq, Repr

structure FlatRec where
  dir : S
  byHash : ByHashOpt
  source : Bool
  binaries : Bool
deriving DecidableEq, Repr

inductive RepoKind
  | std (cns : List CodenameRec)
  | flat (dirs : List FlatRec)
deriving DecidableEq, Repr

structure RepoRec where
  key : S
  kind : RepoKind
deriving DecidableEq, Repr

/-- merge one line into an existing component list (`setdefault` + append missing arches + or source) -/
def mergeComp (l : LineCfg) (comps : List CompRec) (c : S) : List CompRec :=
  if comps.any (·.name = c) then
    comps.map fun k => if k.name = c then
      { k with arches := l.arches.foldl addArch k.arches, source := k.source || l.source } else k
  else comps ++ [{ name := c, source := l.source, arches := l.arches.foldl addArch [] }]

def newCodename (l : LineCfg) (cn : S) : CodenameRec :=
  { name := cn, byHash := l.byHash, comps := l.components.foldl (mergeComp l) [] }

def mergeCodename (l : LineCfg) (cns : List CodenameRec) (cn : S) : List CodenameRec :=
  if cns.any (·.name = cn) then
    cns.map fun k => if k.name = cn then
      { k with byHash := if k.byHash = .yes then l.byHash else k.byHash,
               comps := l.components.foldl (mergeComp l) k.comps } else k
  else cns ++ [newCodename l cn]

def mergeFlat (l : LineCfg) (dirs : List FlatRec) (d : S) : List FlatRec :=
  let d := rstrip '/' d
  if dirs.any (·.dir = d) then
    dirs.map fun k => if k.dir = d then
      { k with byHash := if k.byHash = .yes then l.byHash else k.byHash,
               binaries := k.binaries || !l.arches.isEmpty, source := k.source || l.source } else k
  else dirs ++ [{ dir := d, byHash := l.byHash, source := l.source, binaries := !l.arches.isEmpty }]

inductive LoadErr | mixed
deriving DecidableEq, Repr

/-- one `deb` line: `to_repository` or `update_repository` -/
def addLine (repos : List RepoRec) (l : LineCfg) : Except LoadErr (List RepoRec) :=
  match repos.find? (·.key = l.key) with
  | none =>
    let kind : RepoKind := if l.isFlat then .flat (l.codenames.foldl (mergeFlat l) [])
                           else .std (l.codenames.foldl (mergeCodename l) [])
    pure (repos ++ [{ key := l.key, kind := kind }])
  | some r =>
    match r.kind, l.isFlat with
    | .std cns, false =>
      pure (repos.map fun k => if k.key = l.key then { k with kind := .std (l.codenames.foldl (mergeCodename l) cns) } else k)
    | .flat dirs, true =>
      pure (repos.map fun k => if k.key = l.key then { k with kind := .flat (l.codenames.foldl (mergeFlat l) dirs) } else k)
    | _, _ => throw .mixed

def load (ls : List LineCfg) : Except LoadErr (List RepoRec) := ls.foldlM addLine []

/-! ### the tuples to mirror -/

inductive What | arch (a : S) | source | binaries
deriving DecidableEq, Repr

structure Tuple where
  repo : S
  codename : S        -- codename or flat directory
  component : S       -- empty for flat
  what : What
deriving DecidableEq, Repr

def compTuples (key cn : S) (c : CompRec) : List Tuple :=
  c.arches.map (fun a => { repo := key, codename := cn, component := c.name, what := .arch a }) ++
  (if c.source then [{ repo := key, codename := cn, component := c.name, what := .source }] else [])

def repoTuples (r : RepoRec) : List Tuple :=
  match r.kind with
  | .std cns => cns.flatMap fun cn => cn.comps.flatMap (compTuples r.key cn.name)
  | .flat dirs => dirs.flatMap fun d =>
      (if d.binaries then [{ repo := r.key, codename := d.dir, component := [], what := .binaries }] else []) ++
      (if d.source then [{ repo := r.key, codename := d.dir, component := [], what := .source }] else [])

def tuples (repos : List RepoRec) : List Tuple := repos.flatMap repoTuples

/-! ### option scoping: URLDict lookup -/

/-- `URLDict._find_key` followed by membership: which stored key an option URL selects -/
def findKey (keys : List S) (k : S) : Option S :=
  if keys.contains k then some k
  else if k.getLast? = some '/' then (if keys.contains (rstrip '/' k) then some (rstrip '/' k) else none)
  else (if keys.contains (k ++ ['/']) then some (k ++ ['/']) else none)

/-! ### skip-clean scoping -/

/-- `URL.is_part_of(other)`: `other == base or other.startswith(base + "/")`, `base = str(self).rstrip("/")` (URL strings as
    `str(URL)` renders them: without credentials) -/
def isPartOf (repoUrl other : S) : Bool :=
  let base := rstrip '/' repoUrl
  other = base || (base ++ ['/']).isPrefixOf other

/-- `Config._update_skip_clean` for one skip-clean URL: every repository whose URL the skip-clean URL is a part of gets an entry -/
def skipCleanTargets (repoUrls : List S) (u : S) : List S := repoUrls.filter (fun r => isPartOf r u)

/-- `Config.get_bool` -/
def getBool (v : S) : Bool :=
  !v.isEmpty && !(["0".toList, "off".toList, "no".toList].contains (v.map Char.toLower))

/-- `Config.get_size`: k/m suffixes; `none` models the ValueError -/
def getSize (v : S) : Option Nat :=
  let digits := fun (d : S) => if d.isEmpty || !d.all Char.isDigit then none else some (d.foldl (fun n c => n * 10 + (c.toNat - '0'.toNat)) 0)
  match v.getLast? with
  | none => none
  | some c =>
    if c.isDigit then digits v
    else
      match digits v.dropLast with
      | none => none
      | some n => if c.toLower = 'k' then some (n * 1024) else if c.toLower = 'm' then some (n * 1024 * 1024) else none

end Cfg
end AptMirror
