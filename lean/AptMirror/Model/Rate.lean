/-
  Model of the rate limiter contract (aiolimiter.AsyncLimiter as a leaky bucket: capacity `cap`, leaking
  `r` per tick; an acquisition of `a` is granted at a time when leaked level + a ≤ cap), of how
  download_file charges a chunk to it, and of SlowRateProtector.rate().
  Time is in integer ticks (any unit); `r` is bytes per tick.
-/
namespace AptMirror
namespace Rate

structure Bucket where
  r : Nat          -- leak per tick (= limit_rate per second when a tick is a second)
  cap : Nat        -- max_rate = 60 × limit_rate
  level : Nat
  last : Nat       -- time of the last update
deriving DecidableEq, Repr

/-- the level after leaking until time `t` -/
def Bucket.leak (b : Bucket) (t : Nat) : Nat := b.level - b.r * (t - b.last)

/-- a grant of `a` at time `t ≥ last` (the limiter lets `acquire(a)` return at `t`) -/
def Bucket.grant (b : Bucket) (t a : Nat) : Option Bucket :=
  if b.last ≤ t ∧ b.leak t + a ≤ b.cap then some { b with level := b.leak t + a, last := t } else none

/-- a timed sequence of grants -/
def Bucket.run (b : Bucket) : List (Nat × Nat) → Option Bucket
  | [] => some b
  | (t, a) :: rest => match b.grant t a with | some b' => b'.run rest | none => none

/-- the first time at or after `t` at which the contract lets `acquire(a)` return (what a limiter that wakes its waiter as
    soon as there is room does): now if it fits, otherwise after the excess has leaked, rounded up to a tick -/
def Bucket.earliest (b : Bucket) (t a : Nat) : Nat :=
  max t (b.last + (b.level + a - b.cap + b.r - 1) / b.r)

/-- what `download_file` charges for a chunk of `n` bytes: the original code -/
def legacyCharge (cap n : Nat) : List Nat := [min n cap]

/-- after the fix: slices of at most `cap` that add up to the chunk -/
def slices (cap : Nat) : (fuel n : Nat) → List Nat
  | 0, _ => []
  | fuel + 1, n => if n = 0 then [] else if n ≤ cap then [n] else cap :: slices cap fuel (n - cap)

def charge (cap n : Nat) : List Nat := slices cap n n

/-- `SlowRateProtector.rate`: abort iff the grace period is over and the average rate is below the threshold.
    `passed` = whole seconds since the transfer started, `count` = bytes so far including this chunk. -/
def slow (startup slowRate passed count : Nat) : Bool :=
  passed ≠ 0 && startup ≤ passed && count < slowRate * passed

end Rate
end AptMirror
