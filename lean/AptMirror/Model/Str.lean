/-
  Character-level string functions used by the code's substring heuristics, on `List Char`
  (structural recursion, so that `decide` can evaluate them and lemmas are by induction).
-/
namespace AptMirror
namespace Str

abbrev S := List Char

def startsWith (s p : S) : Bool := p.isPrefixOf s

/-- Python `needle in haystack` -/
def isInfix (needle : S) : S → Bool
  | [] => needle.isEmpty
  | c :: cs => needle.isPrefixOf (c :: cs) || isInfix needle cs

/-- Python `s.count(ch)` for a single character -/
def count (ch : Char) (s : S) : Nat := s.count ch

/-- split on a character (Python `s.split(ch)`), never empty -/
def splitOn (ch : Char) : S → List S
  | [] => [[]]
  | c :: cs =>
    if c = ch then [] :: splitOn ch cs
    else match splitOn ch cs with
      | [] => [[c]]
      | f :: fs => (c :: f) :: fs

def join (sep : S) : List S → S
  | [] => []
  | [a] => a
  | a :: rest => a ++ sep ++ join sep rest

/-- `s.rsplit(ch, maxsplit=k)[0]` -/
def rsplitHead (ch : Char) (k : Nat) (s : S) : S :=
  let fields := splitOn ch s
  join [ch] (fields.take (fields.length - min k (fields.length - 1)))

/-- Python `s.rstrip(ch)` -/
def rstrip (ch : Char) (s : S) : S := (s.reverse.dropWhile (· = ch)).reverse

def ofString (s : String) : S := s.toList
def toString (s : S) : String := String.ofList s

end Str
end AptMirror
