import AptMirror.Model.Str
/-
  Model of `Config._substitute_variables` (apt_mirror/config.py): the settings table is rewritten in place, entry by entry
  in table order, by `string.Template(value).substitute(table)`, for up to 16 rounds, until a round finds no `$`.

  `subst` is Python's `string.Template.substitute` for the default pattern (delimiter `$`, ASCII identifiers
  `[_a-zA-Z][_a-zA-Z0-9]*`, `$$` escape, `${name}`), as a character automaton:
    * `$$`        -> `$`
    * `$name`     -> value of `name` (longest identifier)         KeyError if unset
    * `${name}`   -> value of `name`                              KeyError if unset
    * any other `$` -> ValueError ("Invalid placeholder")
  Errors are raised left to right, as `re.sub` calls the conversion function match by match.
-/
namespace AptMirror
namespace Vars
open Str

inductive Err | value | key
deriving DecidableEq, Repr, Inhabited

abbrev Env := List (S × S)

def isIdStart (c : Char) : Bool := c.isAlpha || c = '_'
def isIdChar (c : Char) : Bool := c.isAlphanum || c = '_'

def lookup (env : Env) (k : S) : Except Err S :=
  match env.find? (fun e => e.1 = k) with
  | some e => .ok e.2
  | none => .error .key

inductive St
  | text
  | dollar
  | name (acc : S)
  | brace (acc : S)

/-- `Template(s).substitute(env)`, started in automaton state `st` -/
def run (env : Env) : St → S → Except Err S
  | .text, [] => .ok []
  | .text, c :: cs => if c = '$' then run env .dollar cs else (run env .text cs).map (c :: ·)
  | .dollar, [] => .error .value
  | .dollar, c :: cs =>
    if c = '$' then (run env .text cs).map ('$' :: ·)
    else if isIdStart c then run env (.name [c]) cs
    else if c = '{' then run env (.brace []) cs
    else .error .value
  | .name acc, [] => lookup env acc
  | .name acc, c :: cs =>
    if isIdChar c then run env (.name (acc ++ [c])) cs
    else (lookup env acc).bind fun v =>
      if c = '$' then (run env .dollar cs).map (v ++ ·) else (run env .text cs).map (fun r => v ++ c :: r)
  | .brace _, [] => .error .value
  | .brace acc, c :: cs =>
    if c = '}' then (if acc.isEmpty then .error .value else (lookup env acc).bind fun v => (run env .text cs).map (v ++ ·))
    else if (if acc.isEmpty then isIdStart c else isIdChar c) then run env (.brace (acc ++ [c])) cs
    else .error .value

def subst (env : Env) (s : S) : Except Err S := run env .text s

def hasDollar (s : S) : Bool := s.contains '$'

/-- one pass of the `for key, value in self._variables.items()` loop: `done` are the entries already visited (with their new
    values), `todo` the ones still to visit; every lookup sees the table as it is at that moment -/
def pass (done : Env) : Env → Bool → Except Err (Env × Bool)
  | [], found => .ok (done, found)
  | (k, v) :: rest, found =>
    if hasDollar v then
      (subst (done ++ (k, v) :: rest) v).bind fun v' => pass (done ++ [(k, v')]) rest true
    else pass (done ++ [(k, v)]) rest found

def round (env : Env) : Except Err (Env × Bool) := pass [] env false

/-- the `while` loop; `left` = rounds that may still end without the "too many substitutions" error (15 at the start: the
    16th round raises whatever it finds) -/
def loop : Nat → Env → Except Err Env
  | 0, env => (round env).bind fun _ => .error .value
  | n + 1, env => (round env).bind fun (e, found) => if found then loop n e else .ok e

def substituteVariables (env : Env) : Except Err Env := loop 15 env

end Vars
end AptMirror
