import AptMirror.Model.Select
import AptMirror.Model.PathSafe
import AptMirror.Model.Config
/-
  Model of BaseRepository.validate_release_files and get_metadata_files (apt_mirror/repository.py) over
  already tokenised Release files (python-debian's deb822 tokeniser is third-party: exercised, not modelled).
-/
namespace AptMirror
open Cfg (ByHashOpt)

structure RelEntry where
  hash : String
  sizeRaw : String
  name : String          -- file["name"] as written
  parts : Path           -- Path(name).parts
deriving DecidableEq, Repr

structure RelFile where
  dir : Path                               -- release_file_relative_path.parent
  byHashYes : Bool                         -- Acquire-By-Hash == "yes"
  sections : List (Algo × List RelEntry)   -- the multivalued fields present, any order
deriving Repr

/-- `int(file["size"])`, ValueError ⇒ 0 (decimal digits with optional sign) -/
def parseSize (s : String) : Int :=
  let cs := Cfg.strip s.toList
  let (neg, ds) : Bool × List Char := match cs with
    | '-' :: r => (true, r)
    | '+' :: r => (false, r)
    | r => (false, r)
  if ds.isEmpty || !ds.all Char.isDigit then 0
  else
    let n : Nat := ds.foldl (fun n c => n * 10 + (c.toNat - '0'.toNat)) 0
    if neg then -(n : Int) else (n : Int)

def isReleaseName (n : String) : Bool := n = "InRelease" || n = "Release" || n = "Release.gpg"

/-- an entry as validation sees it -/
structure VEntry where
  algo : Algo
  name : String
  size : Int
  hash : String
deriving DecidableEq, Repr

/-- entries of one release file in the order the code visits them (HashType order, then file order),
    without non-positive sizes and release-file names -/
def considered (f : RelFile) : List VEntry :=
  Algo.all.flatMap fun a =>
    ((f.sections.lookup a).getD []).filterMap fun e =>
      let sz := parseSize e.sizeRaw
      if sz ≤ 0 || isReleaseName e.name then none else some { algo := a, name := e.name, size := sz, hash := e.hash }

/-- two entries may coexist -/
def compat (a b : VEntry) : Bool := a.name ≠ b.name || (a.size = b.size && (a.algo ≠ b.algo || a.hash = b.hash))

/-- sequential check against everything seen so far (the code's `metadata_sizes` / `metadata_hashes`) -/
def checkSeq (seen : List VEntry) : List VEntry → Bool
  | [] => true
  | e :: rest => seen.all (fun s => compat s e) && checkSeq (e :: seen) rest

inductive Verdict | ok | inconsistent | noReleaseFiles
deriving DecidableEq, Repr

/-- `validate_release_files`: `codenames` = per codename/flat directory the release files that exist (non-.gpg) -/
def validate (codenames : List (List RelFile)) : Verdict :=
  if codenames.any (fun fs => !checkSeq [] (fs.flatMap considered)) then .inconsistent
  else if codenames.all (fun fs => fs.isEmpty) then .noReleaseFiles
  else .ok

/-! ### get_metadata_files -/

def pathStr (p : Path) : Str.S := Str.join ['/'] (p.map String.toList)

/-- `str.isalnum()` on ASCII -/
def hashOK (h : String) : Bool := !h.isEmpty && h.toList.all Char.isAlphanum

/-- `should_ignore_errors`: component-wise prefix -/
def shouldIgnore (ignored : List Path) (p : Path) : Bool := ignored.any (fun i => isPrefix i p)

inductive SelCfg
  | std (c : CodenameCfg)
  | flat (mirrorSource mirrorBinaries : Bool)

def SelCfg.allowed (c : SelCfg) (s : Str.S) : Bool :=
  match c with
  | .std cc => AptMirror.allowed cc s
  | .flat ms mb => allowedFlat ms mb s

def useHash (f : RelFile) (policy : ByHashOpt) : Bool :=
  if f.byHashYes then policy ≠ .no else policy = .force

/-- insertion-ordered dict keyed by the uncompressed relative path -/
abbrev Groups := List (Path × DFile)

def processEntry (f : RelFile) (policy : ByHashOpt) (sel : SelCfg) (ignored : List Path) (a : Algo)
    (g : Groups) (e : RelEntry) : Groups :=
  if !lexSafe e.parts then g
  else if parseSize e.sizeRaw ≤ 0 then g
  else if isReleaseName e.name then g
  else if !sel.allowed (pathStr e.parts) then g
  else if !hashOK e.hash then g
  else
    let size := (parseSize e.sizeRaw).toNat
    let repoPath := f.dir ++ e.parts
    let key := uncompressedPath e.parts
    let ign := shouldIgnore ignored key
    match g.lookup key with
    | some df =>
      g.map fun kv => if kv.1 = key then (key, { df.addVariant repoPath size (some (a, e.hash)) (useHash f policy) with ignoreErrors := ign }) else kv
    | none =>
      g ++ [(key, { DFile.fromHashedPath repoPath size a e.hash (useHash f policy) with ignoreErrors := ign })]

def processFile (policy : ByHashOpt) (sel : SelCfg) (ignored : List Path) (g : Groups) (f : RelFile) : Groups :=
  Algo.all.foldl (fun g a => ((f.sections.lookup a).getD []).foldl (processEntry f policy sel ignored a) g) g

/-- the download files of one codename / flat directory -/
def metadataFiles (files : List RelFile) (policy : ByHashOpt) (sel : SelCfg) (ignored : List Path) : List DFile :=
  (files.foldl (processFile policy sel ignored) []).map (·.2)

end AptMirror
