import AptMirror.Model.DownloadFile
/-
  Model of apt_mirror/download/downloader.py : Downloader.download / download_file,
  sequential semantics (one transfer at a time); interleavings are Model/Interleave.lean.
-/
namespace AptMirror

/-- What one request of one URL yields.  `ok`: announced Content-Length, Last-Modified,
    number of body bytes delivered before the stream ended, whether it ended by an
    exception, and the identity of the content served. -/
inductive Resp
  | retry
  | missing
  | error
  | ok (announced : Option Nat) (date : Option Int) (body : Nat) (abort : Bool) (tag : Nat)
deriving DecidableEq, Repr, Inhabited

structure Book where
  downloaded : List Variant := []
  unmodified : List Variant := []
  missing    : List Path := []        -- set (kept duplicate free)
  dlCount : Nat := 0
  dlSize  : Nat := 0
  umCount : Nat := 0
  umSize  : Nat := 0
  missCount : Nat := 0
  missSize  : Nat := 0
  errCount : Nat := 0
  errSize  : Nat := 0
deriving Repr, Inhabited

structure DState where
  fs   : FS
  book : Book
  orc  : Path → List Resp     -- remaining responses per URL (exhausted ⇒ missing)
  reqs : List Path            -- request log, most recent first

/-- leading transport-level reconnect signals of a script, and what follows them -/
def dropRetries : List Resp → Nat × List Resp
  | .retry :: rest => let r := dropRetries rest; (r.1 + 1, r.2)
  | l => (0, l)

/-- Requests of URL `u` up to and including the first response that is not a reconnect signal
    (`response.retry` ⇒ `continue` without consuming a try).  An exhausted script answers `missing`. -/
def DState.request (s : DState) (u : Path) : Resp × DState :=
  match dropRetries (s.orc u) with
  | (k, []) => (.missing, { s with orc := fun q => if q = u then [] else s.orc q,
                                   reqs := List.replicate (k + 1) u ++ s.reqs })
  | (k, r :: rs) => (r, { s with orc := fun q => if q = u then rs else s.orc q,
                                 reqs := List.replicate (k + 1) u ++ s.reqs })

/-- `Downloader.link_or_copy(source, *targets)` -/
def linkOrCopy (fs : FS) (source : Path) (targets : List Path) : FS :=
  match targets with
  | [] => fs
  | [t] => if t = source then fs else fs.relink source t
  | t0 :: rest =>
    let fs1 := if t0 = source then fs else fs.relink source t0
    (t0 :: rest).foldl (fun acc t => if t = t0 then acc else acc.relink t0 t) fs1

/-- `need_update(path, size, date)` -/
def needUpdate (fs : FS) (p : Path) (size : Option Nat) (date : Option Int) : Bool :=
  match fs.dataAt p, date, size with
  | some d, some dt, some sz => !(sz ≠ 0 ∧ d.mtime = some dt ∧ d.size = sz)
  | _, _, _ => true

def utimeOpt (fs : FS) (p : Path) : Option Int → FS
  | some d => fs.utime p d
  | none => fs

def listDiff (a b : List Path) : List Path := a.filter (fun p => !b.contains p)
def listUnion (a b : List Path) : List Path := a ++ (b.filter (fun p => !a.contains p)).eraseDups

inductive TryResult | accepted | exhausted
deriving DecidableEq, Repr

def sizeTruthy : Option Nat → Bool
  | some n => n ≠ 0
  | none => false

/-- Outcome of one pass through the body of the `while tries > 0` loop (after any reconnects). -/
inductive Attempt
  | accept (s : DState)                 -- `return` after book-keeping
  | again (s : DState) (err : Bool)     -- `continue` after `retry(...)`: one try consumed
  | stop (s : DState)                   -- `break`

def Attempt.state : Attempt → DState
  | .accept s => s | .again s _ => s | .stop s => s

/-- One pass through the loop body for (variant, alias URL); `err` is the function-level
    `error` flag. Branch order exactly as in the code. -/
def attempt (root : Path) (f : DFile) (v : Variant) (src : Path) (s : DState) (err : Bool) : Attempt :=
  match s.request src with
  | (.retry, s1) => .again s1 err      -- unreachable: `request` skips reconnect signals
  | (.missing, s1) =>
    if f.ignoreErrors ∨ f.ignoreMissing then .stop s1 else .again s1 err
  | (.error, s1) =>
    if f.ignoreErrors then .stop s1 else .again s1 true
  | (.ok announced date body abort tag, s1) =>
    if v.size > 0 ∧ sizeTruthy announced ∧ announced ≠ some v.size then
      if f.ignoreErrors then .stop s1 else .again s1 true
    else if sizeTruthy announced ∧ !needUpdate s1.fs (root ++ src) announced date then
      .accept { s1 with
        fs := linkOrCopy s1.fs (root ++ src) (v.allPaths.map (root ++ ·)),
        book := { s1.book with umCount := s1.book.umCount + 1, umSize := s1.book.umSize + announced.getD 0,
                               downloaded := s1.book.downloaded ++ [v],
                               missing := listDiff s1.book.missing v.allPaths } }
    else if abort then
      .again { s1 with fs := s1.fs.rewrite (root ++ src) body tag } true
    else if v.size > 0 ∧ v.size ≠ body then
      .again { s1 with fs := s1.fs.rewrite (root ++ src) body tag } true
    else
      .accept { s1 with
        fs := linkOrCopy (utimeOpt (s1.fs.rewrite (root ++ src) body tag) (root ++ src) date) (root ++ src)
                (v.allPaths.map (root ++ ·)),
        book := { s1.book with dlCount := s1.book.dlCount + 1, dlSize := s1.book.dlSize + body,
                               downloaded := s1.book.downloaded ++ [v],
                               missing := listDiff s1.book.missing v.allPaths } }

/-- The `while tries > 0` loop for one (variant, alias URL). Total by structural recursion on the
    number of tries; scripts are finite lists, which is the "finitely many reconnect signals"
    assumption of C12. -/
def tryLoop (root : Path) (f : DFile) (v : Variant) (src : Path) :
    (tries : Nat) → DState → Bool → TryResult × DState × Bool
  | 0, s, err => (.exhausted, s, err)
  | tries + 1, s, err =>
    match attempt root f v src s err with
    | .accept s' => (.accepted, s', err)
    | .stop s' => (.exhausted, s', err)
    | .again s' e' => tryLoop root f v src tries s' e'

def tryAliases (root : Path) (f : DFile) (v : Variant) :
    List Path → DState → Bool → TryResult × DState × Bool
  | [], s, err => (.exhausted, s, err)
  | src :: rest, s, err =>
    match tryLoop root f v src 10 s err with
    | (.accepted, s1, e1) => (.accepted, s1, e1)
    | (.exhausted, s1, e1) => tryAliases root f v rest s1 e1

def tryVariants (root : Path) (f : DFile) :
    List Variant → DState → Bool → TryResult × DState × Bool
  | [], s, err => (.exhausted, s, err)
  | v :: rest, s, err =>
    match tryAliases root f v v.allPaths s err with
    | (.accepted, s1, e1) => (.accepted, s1, e1)
    | (.exhausted, s1, e1) => tryVariants root f rest s1 e1

/-- `download_file(source_file)` -/
def downloadFile (root : Path) (f : DFile) (s : DState) : DState :=
  match tryVariants root f f.iterVariants s false with
  | (.accepted, s1, _) => s1
  | (.exhausted, s1, err) =>
    if f.ignoreErrors then s1
    else if f.ignoreMissing ∧ !err then s1
    else
      let b := s1.book
      let b1 := { b with missing := listUnion b.missing f.allPaths }
      if !err then { s1 with book := { b1 with missCount := b1.missCount + 1, missSize := b1.missSize + f.size } }
      else { s1 with book := { b1 with errCount := b1.errCount + 1, errSize := b1.errSize + f.size } }

/-- the `check_size` short-cut at the head of `download()` -/
def sizeShortcut (root : Path) (f : DFile) (fs : FS) : List Variant → Option Variant
  | [] => none
  | v :: rest =>
    if fs.sizeAt (root ++ v.sourcePath) = some f.size then some v else sizeShortcut root f fs rest

def downloadOne (root : Path) (f : DFile) (s : DState) : DState :=
  match (if f.checkSize then sizeShortcut root f s.fs f.iterVariants else none) with
  | some v =>
    let b := s.book
    { s with book := { b with umCount := b.umCount + 1, umSize := b.umSize + f.size,
                              unmodified := b.unmodified ++ [v] } }
  | none => downloadFile root f s

/-- `download()`: the queue is popped from the end. -/
def download (root : Path) (queue : List DFile) (s : DState) : DState :=
  queue.reverse.foldl (fun acc f => downloadOne root f acc) s

end AptMirror
