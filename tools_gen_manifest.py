#!/usr/bin/env python3
"""Regenerates MANIFEST.json from the table below (kept in one place so it is always schema-valid)."""
import json
import os

HERE = os.path.dirname(os.path.abspath(__file__))
PY = "/venv/bin/python harness/run.py"

CLAIMED = {
    "C05": dict(
        technique="Lean 4 proof (induction over the attempt loop, frame lemmas) + differential correspondence with Downloader.download()",
        text=("Theorems C05_file_outcome / C05_attempt_sound / C05_rejects / C05_exhausted_excluded / "
              "C05_obtained_sound_partial hold for every file, oracle, pre-existing tree and book in the Lean model of "
              "download_file/download; the model is compared with the real Downloader.download() on generated queues and "
              "response scripts, and the size-at-report-time monitor runs on the real code."),
        note=("Proved for the sequential semantics and queues with pairwise disjoint targets (hypothesis forced by the proof; "
              "the excluded point is finding F-C05a). Trusted: Lean kernel, hand-written model, differential harness."),
        design="6/C05"),
    "C12": dict(
        technique="Lean 4 proof (potential function over request log + remaining reconnect signals; structural termination) + differential correspondence",
        text=("C12_file_bound / C12_per_url_bound / C12_ten / C12_only_own_urls / C12_transient_absorbed proved for all scripts; "
              "all model functions are total by structural recursion; request logs of the real downloader are compared "
              "with the model's and checked against the bound under two schedules; per-task accounting shows that a file is only given up "
              "after ten tries of its own on each of its URLs, also when siblings share a by-hash URL."),
        note="Release-stage round bound is in C11; interleaving independence beyond two schedules is C15. Trusted: Lean kernel, model, harness.",
        design="6/C12"),
}

CLAIMED.update({
    "C01": dict(
        technique="Lean 4 proof chain (control logic, clean stage => all obtained, obtained => declared size) + end-to-end fsck monitor and control correspondence on the real APTMirror.run()",
        text=("C01_exit0_all_stages_clean, C01_clean_stage_all_obtained and C01_clean_stage_sizes are proved for all stage outcomes, "
              "queues, oracles and prior trees; Props/C01Pool.lean composes them with the C09 refinement through the queue-entry glue "
              "(Index.poolDFile, compared with the real DownloadFile objects): C01_packages_pool_complete and C01_sources_pool_complete - every "
              "package or source file the published index names, outside ignore_errors, is below the mirror root with its declared size; "
              "C01_unpacked_is_obtained / C01_unobtained_not_parsed (Model/Unpack: the variant the pool stage parses is one this run obtained, "
              "because the skel clean runs in between; compared with _unpack_index + PathCleaner). The real tool is run end-to-end against a simulated upstream under fault plans, "
              "version switches, variant downgrades over two runs and local OSErrors - standard and flat repositories -, its stage sequence "
              "is compared with Model/Control, every run that ends without error is replayed in the whole-run model (Model/Mirror), and an "
              "independent fsck is evaluated whenever it exits 0."),
        note=("Which files are queued (Release selection, Packages/Sources parsing) is C10/C09; the model-level chain stops at 'every "
              "queued required file obtained with declared size', the end-to-end conclusion is checked by the fsck monitor. "
              "Trusted: Lean kernel, model, harness (fsck is an independent re-implementation)."),
        design="6/C01"),
    "C02": dict(
        technique="Lean 4 proof (decision logic of mirror()/run(), frame lemmas) + control correspondence and before/after monitors on the real tool",
        text=("C02_repo_result_iff / C02_exit_iff / C02_failed_no_publish / C02_repos_independent / C02_download_keeps_names / "
              "C02_optional_never_fails proved for all stage outcomes; real runs over (V1, V2) histories with per-repository "
              "fault classes check exit status, byte-identity of the failed repository's dists and superset of files, and that the "
              "healthy repository is published. C02_failed_run_keeps_tree (whole-run model): however far the pool stage of a failing run "
              "gets, the live metadata is unchanged, no file name disappears and no complete file is touched."),
        note="Skips worlds where a codename selects no index (S3). Trusted: Lean kernel, model, harness.",
        design="6/C02"),
    "C03": dict(
        technique="Lean 4 proof (invariant over every prefix of move_metadata's operation list) + op-sequence correspondence + live-tree monitor at every real filesystem mutation",
        text=("C03_publish_prefix (every prefix of the operation list shows old, new, or absent-with-old-intact), C03_publish_final, "
              "C03_no_inplace_write, C03_download_no_inplace, C03_pool_untouched proved for all staged file sets and prior trees; "
              "the model's operation list is compared op-for-op with the audit-hook trace of the real move_metadata, and the live "
              "tree is hashed at every mutation of real update runs. C03_order and C03_delete_after_live prove the ordering clauses on the "
              "whole-run model: at every prefix of a run either the old metadata is live and no complete file has been touched, or the new "
              "metadata is live and every pool file it references is in place; a removal is always preceded by the swap."),
        note="rename(2) atomicity is the model's step rule; standard repositories. Trusted: Lean kernel, model, harness.",
        design="6/C03"),
})

CLAIMED.update({
    "C06": dict(
        technique="Lean 4 proof (lexical path algebra: root-independent confinement, closure under join/parent/by-hash) + is_safe_path correspondence + audit-hook confinement monitor on hostile end-to-end runs",
        text=("C06_lexsafe_confined (an accepted path resolves below every directory it is joined to), C06_join_safe, C06_parent_safe, "
              "C06_byhash_safe and the rejection theorems are proved for all paths and roots; is_safe_path is compared with the model on "
              "an attacker grammar; hostile Release/Packages/Sources/hash-field entries aimed at decoys are served to real runs (with "
              "mirror_path on a differently named parent) and every attempted filesystem mutation must stay inside skel/<repo>, "
              "mirror/<repo>, var."),
        note="Symlink-free trees (S2). Two escapes found on the original tree were fixed (21eb5fb, 355dbb5). Trusted: Lean kernel, model, harness.",
        design="6/C06"),
})

CLAIMED.update({
    "C17": dict(
        technique="Lean 4 proof (semantic abstraction of the nested setdefault merge; induction over lines; permutation corollary) + field-by-field correspondence with Config() + union/permutation/option-scope monitors on the real objects",
        text=("C17_union (tuples of a loaded line list = union of the single-line tuples), C17_perm (order independence), C17_line_ext "
              "(slash / deb-<arch> vs [arch=] spellings only matter through the parsed fields), C17_findKey_scope (an option selects "
              "exactly the repository whose key is its URL without trailing slashes) are proved for all line lists; C17_skipClean_scope / _boundary / "
              "_nested (a skip-clean URL names exactly the repositories it is a part of, at path boundaries; Model/Config.lean skipCleanTargets is "
              "compared with Config._update_skip_clean); C17_getBool_spec and "
              "C17_getSize_spec state get_bool / get_size for every value (ASCII); "
              "the character-level model of from_line and the merge are compared with the real Config on random configurations, and "
              "union / all permutations / option scoping are re-checked on the real objects (URL universe includes nested URLs and URLs that "
              "differ only in port or credentials). $variable evaluation (Model/Vars.lean: string.Template as a character automaton, in-place "
              "rounds, 16-round limit): C17_vars_resolved, C17_vars_keys, C17_vars_literal_kept, C17_vars_idempotent, C17_vars_direct and "
              "C17_vars_direct_order (a setting whose references name $-free settings gets its one-step substitution, whatever the table "
              "order), C17_vars_forward and C17_vars_forward_late_bound (a forward-ordered table - every reference names a setting further up "
              "or a $-free one, as in the shipped defaults, any chain depth - evaluates to its top-to-bottom evaluation, whose values are the "
              "templates as written substituted against the final table) are proved; the model is compared with Config._substitute_variables on the table the real parser built (final table or "
              "error kind), on a directed corpus and random tables."),
        note="Models the code after fixes d7a84c6 and 3fed5fe; the original aliasing is refuted by C17_legacy_alias_counterexample. For references nested two deep the evaluation can depend on the order of the set lines (C17_vars_order_quirk, replayed on the implementation; DESIGN part I section D, observation). Trusted: Lean kernel, model, harness.",
        design="6/C17"),
})

CLAIMED.update({
    "C20": dict(
        technique="Lean 4 proof (decision logic of match_machine as first-match + four constraints; equational non-interference of URL renderers) + three-way correspondence (real NetRC/URL, model, urllib-based spec) + end-to-end password grep",
        text=("C20_match_iff, C20_matches_spec, C20_schemeless_not_http, C20_url_precedence, C20_applied_only_if_match and the two "
              "non-interference theorems are proved for all machine lists and URLs of the modelled grammar; tokeniser, accumulation "
              "over auth.conf + auth.conf.d, matching and the renderers are compared with the real code; real end-to-end runs with "
              "unique passwords (in the URL / in the auth file) are searched for the password in logs, file names and file contents."),
        note="urlparse modelled for [scheme://][userinfo@]host[:port][/path]; logging of malformed config lines excluded (S11). Trusted: Lean kernel, model, harness.",
        design="6/C20"),
})

CLAIMED.update({
    "C10": dict(
        technique="Lean 4 proof: complete kernel evaluation (decide +kernel) of mustFetch/mustNot vs the modelled substring heuristics over a finite representative universe, unbounded filter/group lemmas; group-by-group correspondence with get_metadata_files on random universes",
        text=("C10_must / C10_mustnot are decided for all 243 configurations x 90 entries of the universe in Props/C10.lean (a finite-universe "
              "theorem, labelled as such); C10_unconfigured_component (no entry below an unconfigured component - nested ones included - is ever "
              "selected, for any configuration and any names), C10_filtered, C10_group_any_variant, C10_variant_size are unbounded; Model/Release.lean's "
              "metadataFiles is compared with the real get_metadata_files on random component/architecture universes, and the structured "
              "mustFetch/mustNot spec is evaluated on the real selection; end-to-end: must-not-requested, published-variant-wrong-size, and "
              "half-synced upstream histories (an old file still served under its old date, with or without Content-Length)."),
        note="Finite universe for the architecture/kind substring heuristics; the general statement over all good names is not proved (DESIGN §9). Trusted: Lean kernel, model, harness tokeniser (python-debian is third-party).",
        design="6/C10"),
    "C11": dict(
        technique="Lean 4 proof (sequential check <-> pairwise agreement; permutation invariance; round counting of the release loop; the concrete release-file stage in skel: after every round a release file exists only if that round obtained it) + verdict correspondence, release-stage correspondence (real download_release_files vs Model/ReleaseStage) and end-to-end round/exit monitors",
        text=("C11_validate_iff, C11_codename_iff, C11_order_independent, C11_only_sections, C11_rounds_first, C11_rounds_all_invalid proved for "
              "all release file lists; on Model/ReleaseStage.lean (reset/add/download/drop per round, the tries loop) C11_round_drops_unobtained and "
              "C11_stage_drops_unobtained prove for every prior skel content (files of an earlier or killed run), every server script and every "
              "verdict sequence that a release file left in skel was obtained by the last round, C11_stage_round_bound (1..max(1,retries) rounds for every verdict sequence), C11_stage_first / C11_stage_all_invalid restate "
              "the round counts on the concrete stage; the real RepositoryMirror.download_release_files is run over the scripted transport from "
              "skel trees with stale release files and compared with the model (outcome, rounds, requests, skel content, obtained paths); "
              "real validate_release_files is compared with the model and an independent pairwise spec on mutated "
              "pairs; end-to-end runs with k inconsistent rounds check the number of rounds, exit status and that nothing is published."),
        note="Release tokenisation by python-debian is exercised, not modelled (S12). Trusted: Lean kernel, model, harness.",
        design="6/C11"),
    "C16": dict(
        technique="Lean 4 proof (decision table, alias list, layout as corollary of the L1 acceptance theorem, fallback unfolding) + variant-path correspondence + end-to-end layout/fallback/off monitors",
        text=("C16_table, C16_allPaths, C16_canonical_always, C16_layout, C16_fallback, C16_off, C16_variant_flag proved; real variants' "
              "use_by_hash/get_all_paths/get_source_path compared with the model; end-to-end runs over flag x option x availability "
              "patterns check aliases (one inode), canonical fallback and absence of any by-hash request/path when off."),
        note="Indices with identical content in one directory share a by-hash target (F-C05a) and are excluded by the generator. Trusted: Lean kernel, model, harness.",
        design="6/C16"),
})

CLAIMED.update({
    "C04": dict(
        technique="Lean 4 proof (shell-lexer round trip of shlex.quote by induction over the name; wipe decision logic; mutual induction over the directory tree: both queues of the recursive scan equal the survivor specification) + three-way correspondence (real PathCleaner, Lean scan/exec model, survivor specification) incl. exhaustive small trees; scripts executed by sh and bash",
        text=("C04_quote_roundtrip and C04_script_equiv (the shell reads the generated script as exactly the intended rm commands, for every "
              "file name and any number of entries), C04_files_exact / C04_folders_exact / C04_symlink_never_queued (for every tree with distinct "
              "sibling names, keep set and depth the unlink queue is exactly the unkept regular files and the rmdir queue exactly the non-root "
              "directories without kept content or symlinks), C04_exec_exact (running the queues succeeds and leaves exactly the survivors), "
              "C04_queued_inside, C04_kept_survives, C04_wipe_decision, C04_empty_tree_allowed, C04_kept_not_queued, C04_symlink_kept are "
              "proved; the recursive scan model, its execution and the property's survivor predicate are compared with the real "
              "PathCleaner.clean() on random trees with hostile names/symlinks/keep sets/ratios and on all trees with <= 3 (thorough: 4) "
              "nodes; generated scripts are run by /bin/sh and bash and must produce the autoclean tree; end to end, twin worlds (automatic cleaning / "
              "clean scripts executed after every run) over histories with rollbacks, a grid of wipe ratios and a permanently failing repository "
              "must stay equal (found and fixed F-C04c)."),
        note="C04_exec_exact: executing the two queues in order never meets a non-empty directory and leaves exactly the specified survivors (trees with distinct sibling names). Float vs exact ratio comparison assumed equal below 2^50 bytes. Trusted: Lean kernel, model, harness, real sh/bash for script execution.",
        design="6/C04"),
})

CLAIMED.update({
    "C13": dict(
        technique="Lean 4 proof (inductive invariant over all schedules of any number of processes incl. kills) + single-stepping of the real lock() in threads at audit events compared with the model + real kill -9",
        text=("C13_mutex / C13_mutex_count (at most one process inside, for every schedule of any number of processes and kills), "
              "C13_losers_exit, C13_stale_lock_free, and the decided counterexample for the original protocol are proved; the real "
              "APTMirror.lock() is single-stepped in 2-3 threads over all 252 two-instance interleavings and hundreds of three-instance "
              "schedules, outcomes are compared with the model and the number of instances inside is monitored; a real process is "
              "killed with SIGKILL while holding the lock."),
        note="Kernel semantics of open/flock/unlink are the model's step rules; flock+inode check and unlink+close are single real steps in the harness. Models the code after the lock fix. Trusted: Lean kernel, model, harness.",
        design="6/C13"),
})

CLAIMED.update({
    "C14": dict(
        technique="Lean 4 proof (inductive invariant for the two limits over all accepted event sequences; enabledness of some event in every non-final state; strictly decreasing measure) + replay of the real event trace in the model + in-flight/active monitors and deadlock detection under adversarial schedules",
        text=("C14_bound, C14_sequential, C14_progress, C14_measure, C14_bounded_length are proved for every nthreads >= 1, any number of "
              "repositories and files (also above the window of 128) and every schedule; real runs under random/FIFO/LIFO/timer-"
              "interleaved gate schedules are monitored at every transfer start/end, checked for deadlock, and their start/spawn/"
              "acquire/finish/done event sequence must be accepted step by step by the Lean model and end in a final model state; worlds with a "
              "repository that never gets release files, shared by-hash targets with retry sleeps, and a transfer task that ends cancelled "
              "inside a stage of more than 128 tasks (every other queued transfer must still start)."),
        note="asyncio atomicity between awaits and semaphore semantics are the model's step rules; no fairness assumed. Trusted: Lean kernel, model, harness (virtual-clock loop).",
        design="6/C14"),
})

CLAIMED.update({
    "C19": dict(
        technique="Lean 4 proof (potential-function bound for every timed grant sequence of the leaky bucket; earliest admissible grant time is first and a delayed request meets a full bucket, hence throughput within one tick's worth of the configured rate; exact slicing of chunks; decision logic of the slow-rate check) + contract check of the real aiolimiter grants, windowed byte sums and abort points under a virtual clock",
        text=("C19_bucket_bound (amounts granted in any interval of length T sum to at most capacity + r*T, for any number of interleaved "
              "transfers), C19_charge_exact, C19_slow_iff, C19_not_aborted and the decided counterexample for the original charging are "
              "proved; real download_file + real AsyncLimiter run under a virtual clock: grants must satisfy the bucket contract, every "
              "window of accept events must obey limit*(T+60)+chunk, every byte must be charged; the real SlowRateProtector (virtual "
              "datetime) must abort exactly at the chunk the model names."),
        note="C19_earliest_is_first / C19_delayed_only_when_full / C19_not_throttled prove 'not throttled below the limit' at the level of the limiter's contract. PARTIAL: that aiolimiter wakes its waiters as promptly as that is observed on single transfers only (third-party wake-up policy). Known finding F-C19b (one chunk of slack per concurrent transfer with oversize chunks). Trusted: Lean kernel, model, harness virtual clock.",
        design="6/C19"),
})

CLAIMED.update({
    "C15": dict(
        technique="Lean 4 proof (view/patch locality of a transfer attempt, pairwise commutation of attempts of different transfers with disjoint footprints, induction over List.Perm) + schedule and hash-seed sweeps on the real code + three-way agreement keyed model / sequential model / implementation",
        text=("C15_steps_commute, C15_order_independent (schedules that are permutations of each other end in the same keyed state: every "
              "target slot, script, request count and task record) and C15_queue_order are proved for all task sets with disjoint "
              "footprints; the real Downloader.download() is run under 6 schedules per scenario and whole runs under 4 schedules and 3 "
              "hash seeds, all results must be identical; the keyed model under a random schedule must agree with the sequential model "
              "and the implementation; queues in which one pool path occurs twice with different sizes (outside Disjoint) are run in every "
              "queue order under several schedules and must give the same tree and error status."),
        note="Hypothesis Disjoint (no shared target/URL between queue entries) is forced by the proof; the excluded point is finding F-C05a. Timing-dependent aborts belong to the fault plan (S9). Trusted: Lean kernel, model, harness scheduler.",
        design="6/C15"),
})

CLAIMED.update({
    "C09": dict(
        technique="Lean 4 proof: whole-index refinement for Packages and for Sources (line machine = stanza-level specification over an abstract syntax of stanzas, induction over stanzas, fields, section entries and continuation lines), lines<->bytes (readline splitting inverts rendering), filter and ignore semantics + three-way differential check: real parsers / Lean line-machine model / independent stanza-based reference parser, through all compressions and the mmap path",
        text=("C09_prefix_exact (a line `name: ...` passes startswith(key+':') iff name = key, so prefix/extension field names are inert), "
              "C09_continuation_inert, C09_blank_flushes / C09_blank_skips, C09_final_flush, C09_filter_spec, C09_ignore_exact and "
              "C09_packages_refines / C09_packages_empty (for every sequence of well-formed stanzas - any field order, decoy and multi-line "
              "fields, blank separators, missing final newline - PackagesParser's line machine yields exactly the per-stanza specification) are proved; "
              "grammar-generated Packages/Sources indices (field order, multi-line fields, decoy fields, 1-3 separators, missing final "
              "newline, 1-4 checksum sections, filters, ignore_errors) are parsed by the real parsers, the Lean model and a reference "
              "parser and the three results must be equal. C09_sources_refines is the same refinement for Sources indices (Package, Directory, "
              "the four checksum sections with their entries, any other fields incl. Checksums-<other>, section flag shown to be on exactly "
              "inside the sections, every entry placed under the stanza's Directory: C09_sources_flush), C09_splitLines_render shows that "
              "reading the byte stream line by line gives back the rendered lines (with or without final newline)."),
        note="Proved for both index kinds down to the byte stream, for well-formed stanzas (explicit predicates Field.OK / SrcField.OK, shown satisfiable). Decompression and mmap are library code: exercised (every fourth generated index is above the mmap threshold), not modelled. A malformed-entry stream is compared real vs model only. Models the code after the F-C09a fix. Trusted: Lean kernel, model, harness reference parser.",
        design="6/C09"),
})

CLAIMED.update({
    "C07": dict(
        technique="Lean 4 proof (whole-run model: for EVERY prefix of a run's operation sequence the next good run yields exactly the uninterrupted tree; every prefix of the swap is a legal state; transfers never write in place; leftovers of a dead run are removed and do not influence what is published; partial files are never taken for complete; stale lock) + L2 correspondence of real runs with the whole-run model + crash-point sweep on the real tool: sandbox copied at mutation prefixes, C03 predicate on the copy, rerun from the copy compared with the uninterrupted run",
        text=("C07_index_rerun_content (index stage: from any state a dead run left at the names of an index variant, an accepting attempt ends "
              "with every name on exactly the served content; assumption S5), C07_index_file_content (the same over the retry loop, the aliases "
              "and the compression variants of one index file, S5 kept as an invariant), C07_index_stage_content (the same over the queue of a whole "
              "index stage: S5 is assumed of the state the dead run left only; if the names of an index file belong to no other queue entry and "
              "its transfer is accepted, every name of the accepted variant shows the served content at the END of the stage, whatever the other "
              "entries do), C07_index_torso_refetched, "
              "C07_crash_during_publish, C07_crash_during_transfers, C07_leftovers_ignored, C07_no_leftovers, C07_partial_not_unmodified, "
              "C07_partial_not_shortcut and C07_stale_lock are proved for all prior filesystems, staged file sets, queues and crash "
              "indices; real update runs are cut at stratified mutation prefixes, every swap rename/rmtree and at delivered chunks, and "
              "each crash copy must satisfy the live-tree predicate and, after a rerun (same or newer upstream), equal the uninterrupted "
              "reference tree with no *.apt_mirror_* entry left. On Model/Mirror.lean (pool stage chunk by chunk, swap, clean as one operation "
              "sequence) C07_crash_rerun_converges proves for every crash index k that the rerun's tree equals the uninterrupted run's "
              "(paths, sizes, contents), C07_torso_not_accepted that a file being written is shorter than declared, C07_crash_invariants / "
              "C07_crash_then_newer that the hypotheses survive the crash also for a rerun against a newer version; every real rerun is "
              "replayed in that model from the crashed tree (bodies requested, files removed, final tree)."),
        note="Whole-run convergence is a theorem for the pool/publish/clean part of a run (inputs: the needed lists the earlier stages computed). PARTIAL: the release-file stage (which flavour is kept, retry rounds) is covered by the crash-point sweep only; the index-stage theorem is sequential (interleavings of disjoint transfers commute: C15). Process death only (no fsync analysis). Wipe protection disabled (S4). Trusted: Lean kernel, model, harness tracer (crash point = before the k-th attempted mutation).",
        design="6/C07"),
    "C08": dict(
        technique="Lean 4 proof of the canonical form and idempotence of a whole run on Model/Mirror.lean (result = function of what the run needed, for any prior tree; repeated run = swap only) and of the per-file fixed-point facts (complete pool file never requested, unchanged metadata accepted without body, download sets the announced date on every path, immediately repeated request is 'unmodified', a changed size/date is fetched) + history sweep on the real tool against a first-ever mirror and a repeat run with transfer log",
        text=("C08_pool_no_transfer, C08_unchanged_no_body, C08_download_sets_date, C08_second_pass_unmodified, C08_changed_is_fetched proved "
              "for all filesystems and responses; histories V1..Vn with faulty, killed or missing runs in between are executed on the "
              "real tool and the final (path,size,sha1,mtime) listing must equal a first-ever mirror of Vn; mtimes must equal the "
              "served Last-Modified; the repeat run must transfer no body and change no inode. C08_run_exact / C08_run_canonical / C08_run_content / "
              "C08_run_idempotent / C08_transfer_only_if_absent are proved on the whole-run model for every prior tree and queue; every real "
              "run that ends without error is replayed in it (pool queue and skip-clean as observed, tree found before the run) and "
              "requested bodies, removed files and final tree must agree."),
        note="The canonical-form theorem takes the needed lists (obtained metadata, pool queue) as inputs; that these are the same function of the upstream in both runs is C09 (proved) and C10 (partial) plus glue that is checked end to end. Modification times are per-file theorems. Wipe protection disabled (S4), S3 worlds skipped. Trusted: Lean kernel, model, harness upstream simulator.",
        design="6/C08"),
})

CLAIMED.update({
    "C18": dict(
        technique="Lean 4 proof of the tool's own decision logic (status/exception mapping as read by download_file, transport selection under httpx mount precedence, verification switch, proxy selection, percent-encoding round trip of proxy credentials) + loopback HTTP/TLS/proxy servers on raw sockets driving the real HTTPDownloader and whole APTMirror runs",
        text=("C18_status_contract, C18_exclusive, C18_exception_contract, C18_verify_table, C18_settings_reach_transport, C18_proxy_table, "
              "C18_quote_roundtrip, C18_quote_clean (and the decided counterexamples C18_legacy_cert_counterexample, "
              "C18_legacy_protocol_retry_counterexample) are proved; per-request server behaviours (status x headers x body shape x resets "
              "x redirects) are checked against the property and Model/Http.classify; Downloader.download() over real HTTP is compared "
              "with the Lean `download` fed the classified behaviours; whole runs from configuration files are checked at the server "
              "log for User-Agent, URL credentials, proxy use and credentials, TLS verification mode, client certificate, ALPN; fault "
              "plans over HTTP must give the exit status and tree of the simulated transport."),
        note=("PARTIAL: wire behaviour of httpx/h11/h2/ssl is exercised on loopback servers, not proved; HTTP/2 framing and the FTP downloader are not covered. "
              "Known findings F-C18b.1/.2 (protocol failures other than 'Server disconnected' reported as a free retry). F-C18a (client certificate never presented) fixed. "
              "Trusted: Lean kernel, model, harness loopback servers."),
        design="6/C18"),
})

NOT_YET = {}


def main():
    props = [json.loads(l) for l in open(os.path.join(HERE, "properties.jsonl"))]
    checks = []
    for p in props:
        pid = p["id"]
        if pid not in CLAIMED:
            continue
        c = CLAIMED[pid]
        checks.append({
            "property_id": pid,
            "quick_cmd": f"{PY} --property {pid} --tier quick",
            "thorough_cmd": f"{PY} --property {pid} --tier thorough",
            "evidence_file": f"/verif/evidence/{pid}.json",
            "replay_cmd_template": f"{PY} --property {pid} --replay {{path}}",
            "engine": "lean-model+harness",
            "level_claimed": {"category": "proof", "text": c["text"], "design_ref": c["design"]},
            "level_note": c["note"],
            "technique": c["technique"],
        })
    na = [{"property_id": p["id"], "reason": NOT_YET.get(p["id"], "check not built yet in this round (planned, see DESIGN.md §6); not claimed")}
          for p in props if p["id"] not in CLAIMED]
    m = {
        "version": 1,
        "setup_cmd": "cd /verif/lean && lake build AptMirror amdriver",
        "hooks": {
            "guard": "APT_MIRROR2_VERIF",
            "enable": "no source hooks: checks import /repo's working tree in-process and observe it through sys.addaudithook and seam replacement (DownloaderFactory.for_settings, AsyncIOFileFactory)",
            "baseline_off_cmd": "cd /repo && /venv/bin/python -m pytest -ra -q -p no:cacheprovider --timeout=900 --continue-on-collection-errors",
            "source_commits": [],
            "add_only": True,
        },
        "engines": [{
            "name": "lean-model+harness", "path": "/verif/lean, /verif/harness",
            "serves_properties": sorted(CLAIMED),
            "kind_free_text": "hand-written executable Lean 4 model with machine-checked theorems; Python harness runs the real code in-process on the same scenarios, diffs it against the compiled model driver and evaluates property monitors",
        }],
        "checks": checks,
        "not_applicable": na,
        "notes": "See DESIGN.md. known_findings.json lists genuine defects (fixed or recorded).",
    }
    with open(os.path.join(HERE, "MANIFEST.json"), "w") as fp:
        json.dump(m, fp, indent=1)
    print("checks:", len(checks), "not claimed:", len(na))


if __name__ == "__main__":
    main()
